//! C13: the broker commit log (`rumqttd::segments::CommitLog`, reached through the H1 hook
//! `rumqttd::verif::{CommitLog, Position, Storage}`), driven with `T = (id, declared size)`.
//!
//! Lines (one case = one log; `case <id>` resets):
//!   new <segment size> <max segments>   => ok
//!   append <id> <size>                  => <seg> <off> <head> <tail> <segment count>
//!   readv <seg> <off> <n>               => N|D <start seg> <start off> <end seg> <end off> <k> id:seg:off ...
//!   next_offset                         => <seg> <off>
//!   last                                => <id> | none
//! Every call runs under `catch_unwind`; a panic prints `=> PANIC` and ends the case.
use crate::util::*;
use rumqttd::verif::{CommitLog, Position, Storage};
use std::collections::HashSet;
use std::io::Write;
use std::panic::{catch_unwind, AssertUnwindSafe};

#[derive(Clone, Debug)]
struct Item {
    id: u64,
    size: usize,
}
impl Storage for Item {
    fn size(&self) -> usize {
        self.size
    }
}

const SIZES: [usize; 6] = [1, 300, 1023, 1024, 1025, 5000];
const SEG_SIZES: [usize; 2] = [1024, 2048];
const SEG_COUNTS: [usize; 4] = [1, 2, 3, 10];
const LENS: [u64; 10] = [0, 1, 2, 3, 4, 5, 6, 7, 100, 1 << 40];
const EXH_SIZES: [usize; 3] = [300, 1023, 1025];

/// one log under test plus what the harness knows about it (only used to *generate* cursors and
/// to classify reads for the statistics; all checking happens in the Lean driver)
struct Case {
    log: Option<CommitLog<Item>>,
    seg_size: usize,
    max_segs: usize,
    /// sizes appended so far (identifies the log state for the distinct-case count)
    sizes: Vec<usize>,
    /// first absolute offset of every segment ever created (index = segment id)
    seg_start: Vec<u64>,
    total: u64,
    head: u64,
    issued: Vec<(u64, u64)>,
    issued_set: HashSet<(u64, u64)>,
    dead: bool,
    sampled: bool,
}

impl Case {
    fn new() -> Self {
        Case {
            log: None,
            seg_size: 0,
            max_segs: 0,
            sizes: vec![],
            seg_start: vec![0],
            total: 0,
            head: 0,
            issued: vec![],
            issued_set: HashSet::new(),
            dead: false,
            sampled: false,
        }
    }
    fn issue(&mut self, c: (u64, u64)) {
        if self.issued_set.insert(c) {
            self.issued.push(c);
        }
    }
    fn tail(&self) -> u64 {
        self.seg_start.len() as u64 - 1
    }
    fn seg_end(&self, s: u64) -> u64 {
        if s + 1 < self.seg_start.len() as u64 {
            self.seg_start[s as usize + 1]
        } else {
            self.total
        }
    }
    /// every cursor of the shape the log hands out: (s, o) with start(s) <= o <= end(s)
    fn all_issued_shape(&self) -> Vec<(u64, u64)> {
        let mut v = vec![];
        for s in 0..self.seg_start.len() as u64 {
            for o in self.seg_start[s as usize]..=self.seg_end(s) {
                v.push((s, o));
            }
        }
        v
    }
}

/// execute one op line on the real code; returns the text after `=>`
fn exec(c: &mut Case, op: &str, st: &mut Stats, from_pool: bool) -> String {
    let t: Vec<&str> = op.split_whitespace().collect();
    let num = |i: usize| -> u64 { t[i].parse::<u64>().expect("number in op") };
    if t[0] == "new" {
        let (a, b) = (num(1) as usize, num(2) as usize);
        *c = Case::new();
        c.seg_size = a;
        c.max_segs = b;
        return match catch_unwind(|| CommitLog::<Item>::new(a, b)) {
            Ok(Ok(l)) => {
                c.log = Some(l);
                c.issue((0, 0));
                "ok".into()
            }
            Ok(Err(_)) => {
                c.dead = true;
                "ERR".into()
            }
            Err(_) => {
                c.dead = true;
                st.tag("panic-new");
                "PANIC".into()
            }
        };
    }
    if c.dead || c.log.is_none() {
        return "SKIP".into();
    }
    match t[0] {
        "append" => {
            let (id, size) = (num(1), num(2) as usize);
            let log = c.log.as_mut().unwrap();
            let r = catch_unwind(AssertUnwindSafe(|| {
                let off = log.append(Item { id, size });
                let (h, tl) = log._head_and_tail();
                (off, h, tl, log.memory_segments_count())
            }));
            match r {
                Ok((off, h, tl, cnt)) => {
                    c.sizes.push(size);
                    if off.0 == c.tail() + 1 {
                        c.seg_start.push(c.total);
                        st.tag("append-rolls-segment");
                    }
                    if h > c.head {
                        st.tag("append-evicts-segment");
                    }
                    c.head = h;
                    c.total += 1;
                    c.issue(off);
                    c.issue((off.0, off.1.wrapping_sub(1)));
                    format!("{} {} {} {} {}", off.0, off.1, h, tl, cnt)
                }
                Err(_) => {
                    c.dead = true;
                    st.impl_panics += 1;
                    st.tag("panic-append");
                    "PANIC".into()
                }
            }
        }
        "readv" => {
            let (s, o, n) = (num(1), num(2), num(3));
            let log = c.log.as_ref().unwrap();
            let r = catch_unwind(AssertUnwindSafe(|| {
                let mut out: Vec<(Item, (u64, u64))> = Vec::new();
                let p = log.readv((s, o), n, &mut out);
                (p, out)
            }));
            match r {
                Ok((Ok(p), out)) => {
                    let (k, st_, en) = match p {
                        Position::Next { start, end } => ('N', start, end),
                        Position::Done { start, end } => ('D', start, end),
                    };
                    st.tag(if k == 'N' { "readv-Next" } else { "readv-Done" });
                    let issued_shape = (s as usize) < c.seg_start.len()
                        && c.seg_start[s as usize] <= o
                        && o <= c.seg_end(s);
                    if issued_shape {
                        let stale = s < c.head;
                        let segs: HashSet<u64> = out.iter().map(|e| (e.1).0).collect();
                        let crosses = segs.len() > 1;
                        let at_seg_end = s < c.tail() && o == c.seg_end(s);
                        if stale {
                            st.tag("readv-stale-cursor");
                        }
                        if crosses {
                            st.tag("readv-crosses-boundary");
                        }
                        if at_seg_end {
                            st.tag("readv-starts-at-segment-end");
                        }
                        if en.0 > s.max(c.head) && en.1 == c.seg_start[en.0.min(c.tail()) as usize] {
                            st.tag("readv-continuation-at-boundary");
                        }
                        if stale || crosses || at_seg_end {
                            st.nontrivial(&(c.seg_size, c.max_segs, &c.sizes, s, o, n));
                            if out.len() >= 2 && crosses && !c.sampled && c.sizes.len() >= 4 {
                                c.sampled = true;
                                st.sample(format!(
                                    "seg_size={} max_segs={} appended_sizes={:?} head={} readv(({s},{o}),{n}) => {k} start={:?} end={:?} entries={:?}",
                                    c.seg_size,
                                    c.max_segs,
                                    c.sizes,
                                    c.head,
                                    st_,
                                    en,
                                    out.iter().map(|e| (e.0.id, e.1)).collect::<Vec<_>>()
                                ));
                            }
                        }
                        // continuations and entry tags of a read from an issued cursor are issued
                        let _ = from_pool;
                        for e in &out {
                            c.issue(e.1);
                        }
                        c.issue(en);
                    } else {
                        st.tag("readv-fabricated-cursor");
                    }
                    st.tag(match n {
                        0 => "n=0",
                        1..=7 => "n=1..7",
                        100 => "n=100",
                        _ => "n=huge",
                    });
                    let mut sout = format!("{k} {} {} {} {} {}", st_.0, st_.1, en.0, en.1, out.len());
                    for e in &out {
                        sout.push_str(&format!(" {}:{}:{}", e.0.id, (e.1).0, (e.1).1));
                    }
                    sout
                }
                Ok((Err(_), _)) => "ERR".into(),
                Err(_) => {
                    c.dead = true;
                    st.impl_panics += 1;
                    st.tag("panic-readv");
                    st.sample(format!(
                        "PANIC seg_size={} max_segs={} appended_sizes={:?} readv(({s},{o}),{n}): {}",
                        c.seg_size,
                        c.max_segs,
                        c.sizes,
                        last_panic()
                    ));
                    "PANIC".into()
                }
            }
        }
        "next_offset" => {
            let log = c.log.as_ref().unwrap();
            match catch_unwind(AssertUnwindSafe(|| log.next_offset())) {
                Ok(x) => {
                    c.issue(x);
                    format!("{} {}", x.0, x.1)
                }
                Err(_) => {
                    c.dead = true;
                    st.impl_panics += 1;
                    "PANIC".into()
                }
            }
        }
        "last" => {
            let log = c.log.as_ref().unwrap();
            match catch_unwind(AssertUnwindSafe(|| log.last())) {
                Ok(Some(x)) => format!("{}", x.id),
                Ok(None) => "none".into(),
                Err(_) => {
                    c.dead = true;
                    st.impl_panics += 1;
                    "PANIC".into()
                }
            }
        }
        _ => panic!("bad op {op}"),
    }
}

fn emit(w: &mut dyn Write, c: &mut Case, st: &mut Stats, op: String, from_pool: bool) -> bool {
    let out = exec(c, &op, st, from_pool);
    st.eval();
    st.tag(op.split_whitespace().next().unwrap());
    writeln!(w, "{op} => {out}").unwrap();
    out != "PANIC"
}

fn fabricated(rng: &mut Rng, c: &Case) -> (u64, u64) {
    let tail = c.tail();
    let s = match rng.below(8) {
        0 => u64::MAX,
        1 => tail + 1,
        2 => tail + rng.range(2, 50),
        3 => rng.next(),
        _ => rng.below(tail + 1),
    };
    let o = match rng.below(8) {
        0 => u64::MAX,
        1 => 1 << 63,
        2 => c.total + rng.range(1, 5),
        3 => rng.next(),
        4 => 0,
        _ => rng.below(c.total + 2),
    };
    (s, o)
}

fn random_case(w: &mut dyn Write, rng: &mut Rng, st: &mut Stats, id: String) {
    writeln!(w, "case {id}").unwrap();
    let mut c = Case::new();
    let seg_size = *rng.pick(&SEG_SIZES);
    let max_segs = *rng.pick(&SEG_COUNTS);
    emit(w, &mut c, st, format!("new {seg_size} {max_segs}"), false);
    // size profile of this case: entries mostly larger than / comparable to / smaller than a segment
    let profile: [u64; 6] = match rng.below(4) {
        0 => [0, 1, 2, 4, 4, 4],
        1 => [1, 6, 3, 1, 1, 1],
        2 => [1, 2, 2, 2, 2, 2],
        _ => [6, 4, 1, 1, 1, 0],
    };
    let nops = rng.range(1, 120);
    let read_weight = rng.range(2, 6);
    let mut next_id = 0u64;
    for _ in 0..nops {
        let k = rng.weighted(&[6, read_weight, 1, 1]);
        let ok = match k {
            0 => {
                let size = SIZES[rng.weighted(&profile)];
                next_id += 1;
                emit(w, &mut c, st, format!("append {next_id} {size}"), false)
            }
            1 => {
                let fab = rng.chance(1, 6) || c.issued.is_empty();
                let cur = if fab {
                    fabricated(rng, &c)
                } else if rng.chance(1, 3) {
                    // bias towards old cursors (stale after eviction)
                    c.issued[rng.below((c.issued.len() as u64 / 4).max(1)) as usize]
                } else {
                    *rng.pick(&c.issued)
                };
                let n = *rng.pick(&LENS);
                emit(w, &mut c, st, format!("readv {} {} {}", cur.0, cur.1, n), !fab)
            }
            2 => emit(w, &mut c, st, "next_offset".into(), false),
            _ => emit(w, &mut c, st, "last".into(), false),
        };
        if !ok {
            break;
        }
    }
}

/// all sequences of at most `max_appends` appends over EXH_SIZES, each followed by a read from
/// every cursor of issued shape (every segment ever created, every offset from its first to its
/// next offset) with n = 0..=4
fn exhaustive(w: &mut dyn Write, st: &mut Stats, o: &Opts, seg_size: usize, max_segs: usize, max_appends: usize) {
    let mut index: u64 = 0;
    for len in 0..=max_appends {
        let total = 3u64.pow(len as u32);
        for code in 0..total {
            index += 1;
            if index % o.shards != o.shard {
                continue;
            }
            let mut c = Case::new();
            writeln!(w, "case x{seg_size}-{max_segs}-{len}-{code}").unwrap();
            emit(w, &mut c, st, format!("new {seg_size} {max_segs}"), false);
            let mut x = code;
            for i in 0..len {
                let size = EXH_SIZES[(x % 3) as usize];
                x /= 3;
                emit(w, &mut c, st, format!("append {} {size}", i + 1), false);
            }
            emit(w, &mut c, st, "next_offset".into(), false);
            for cur in c.all_issued_shape() {
                for n in 0..=4u64 {
                    if !emit(w, &mut c, st, format!("readv {} {} {}", cur.0, cur.1, n), true) {
                        break;
                    }
                }
            }
        }
    }
}

/// deterministic corner cases: configuration panics of `new`, a handful of fabricated cursors on
/// small logs, and reads with the largest possible count
fn corners(w: &mut dyn Write, st: &mut Stats) {
    for (a, b) in [(1023usize, 1usize), (1024, 0), (0, 0)] {
        let mut c = Case::new();
        writeln!(w, "case cfg-{a}-{b}").unwrap();
        emit(w, &mut c, st, format!("new {a} {b}"), false);
    }
    let big = [u64::MAX, u64::MAX - 1, u64::MAX - 2, 1 << 63];
    let mut k = 0;
    for max_segs in [1usize, 2, 3] {
        for nap in [0usize, 1, 2, 5] {
            let mut c = Case::new();
            k += 1;
            writeln!(w, "case fab-{k}").unwrap();
            emit(w, &mut c, st, format!("new 1024 {max_segs}"), false);
            for i in 0..nap {
                emit(w, &mut c, st, format!("append {} {}", i + 1, [1024, 300, 1025, 300, 300][i]), false);
            }
            let tail = c.tail();
            for s in [0, 1, tail, tail + 1, u64::MAX] {
                for o in [0, 1, c.total, c.total + 1, 1 << 63, u64::MAX] {
                    for n in [0u64, 1, 3, 1 << 40] {
                        if !emit(w, &mut c, st, format!("readv {s} {o} {n}"), false) {
                            break;
                        }
                    }
                }
            }
        }
    }
    // (counts near u64::MAX are outside C13: the no-panic clause quantifies over cursor values;
    //  the overflow of `idx + len` is documented by C13.readv_panics_for_huge_count only)
    let _ = &big;
}

pub fn run(o: &Opts) {
    let mut w = o.writer();
    let mut st = Stats::new(
        "ops on the real CommitLog<(id,size)>: random append/readv/next_offset/last sequences (<=120 ops; segment size {1024,2048}, max segments {1,2,3,10}, entry sizes {1,300,1023,1024,1025,5000}, n in {0..7,100,2^40}; cursors from the pool of everything issued so far plus fabricated ones) and, exhaustively, every sequence of <=K appends over sizes {300,1023,1025} (segment size 1024, max segments 1,2,3) followed by a read from every cursor of issued shape with n=0..4. Non-trivial = a readv from an issued cursor that is stale (segment already discarded), or returns entries of more than one segment, or starts at the end of a closed segment; distinct by (config, appended sizes so far, cursor, n)",
    );
    if let Some(p) = &o.replay {
        let mut c = Case::new();
        for line in std::fs::read_to_string(p).expect("replay file").lines() {
            let op = line.split("=>").next().unwrap().trim();
            if op.is_empty() || op.starts_with('#') {
                continue;
            }
            if op.starts_with("case") {
                writeln!(w, "{op}").unwrap();
                c = Case::new();
                continue;
            }
            emit(&mut *w, &mut c, &mut st, op.to_string(), true);
        }
        w.flush().unwrap();
        if let Some(p) = &o.stats {
            st.write(p);
        }
        return;
    }
    if o.shard == 0 {
        corners(&mut *w, &mut st);
    }
    let (nrand, exh) = if o.thorough() { (200_000 / o.shards, 10) } else { (3_000 / o.shards, 7) };
    let mut rng = Rng::new(o.seed ^ (o.shard << 32) ^ 0xC106);
    for i in 0..nrand {
        let mut r = rng.fork();
        random_case(&mut *w, &mut r, &mut st, format!("r{}-{}", o.shard, i));
    }
    for max_segs in [1usize, 2, 3] {
        exhaustive(&mut *w, &mut st, o, 1024, max_segs, exh);
    }
    st.exhaustive = true;
    w.flush().unwrap();
    if let Some(p) = &o.stats {
        st.write(p);
    }
}
