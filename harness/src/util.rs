//! Shared helpers: SplitMix64 PRNG (every random choice derives from VERIF_SEED), hex,
//! line output, coverage statistics written as JSON for the orchestrator.
use std::collections::{BTreeMap, HashSet};
use std::hash::{Hash, Hasher};
use std::io::Write;

#[derive(Clone)]
pub struct Rng(pub u64);
impl Rng {
    pub fn new(seed: u64) -> Self {
        Rng(seed.wrapping_mul(0x9E3779B97F4A7C15).wrapping_add(0x1234_5678_9ABC_DEF1))
    }
    pub fn next(&mut self) -> u64 {
        self.0 = self.0.wrapping_add(0x9E3779B97F4A7C15);
        let mut z = self.0;
        z = (z ^ (z >> 30)).wrapping_mul(0xBF58476D1CE4E5B9);
        z = (z ^ (z >> 27)).wrapping_mul(0x94D049BB133111EB);
        z ^ (z >> 31)
    }
    pub fn below(&mut self, n: u64) -> u64 {
        if n == 0 {
            0
        } else {
            self.next() % n
        }
    }
    pub fn range(&mut self, lo: u64, hi_incl: u64) -> u64 {
        lo + self.below(hi_incl - lo + 1)
    }
    pub fn chance(&mut self, num: u64, den: u64) -> bool {
        self.below(den) < num
    }
    pub fn pick<'a, T>(&mut self, xs: &'a [T]) -> &'a T {
        &xs[self.below(xs.len() as u64) as usize]
    }
    /// weighted choice: returns the index
    pub fn weighted(&mut self, w: &[u64]) -> usize {
        let tot: u64 = w.iter().sum();
        let mut r = self.below(tot.max(1));
        for (i, x) in w.iter().enumerate() {
            if r < *x {
                return i;
            }
            r -= *x;
        }
        w.len() - 1
    }
    pub fn fork(&mut self) -> Rng {
        Rng(self.next())
    }
}

pub fn hex(b: &[u8]) -> String {
    if b.is_empty() {
        return "-".to_string();
    }
    let mut s = String::with_capacity(b.len() * 2);
    for x in b {
        s.push_str(&format!("{:02x}", x));
    }
    s
}

pub fn unhex(s: &str) -> Vec<u8> {
    if s == "-" {
        return vec![];
    }
    (0..s.len() / 2)
        .map(|i| u8::from_str_radix(&s[2 * i..2 * i + 2], 16).unwrap())
        .collect()
}

/// Coverage statistics measured by the harness itself.
pub struct Stats {
    pub evaluations: u64,
    distinct: HashSet<u64>,
    pub histogram: BTreeMap<String, u64>,
    pub samples: Vec<String>,
    pub rule: String,
    pub exhaustive: bool,
    pub impl_panics: u64,
}

impl Stats {
    pub fn new(rule: &str) -> Self {
        Stats {
            evaluations: 0,
            distinct: HashSet::new(),
            histogram: BTreeMap::new(),
            samples: vec![],
            rule: rule.to_string(),
            exhaustive: false,
            impl_panics: 0,
        }
    }
    pub fn eval(&mut self) {
        self.evaluations += 1;
    }
    /// record a case that is non-trivial by the sub-command's rule; distinctness by hash
    pub fn nontrivial<T: Hash>(&mut self, key: &T) {
        let mut h = std::collections::hash_map::DefaultHasher::new();
        key.hash(&mut h);
        self.distinct.insert(h.finish());
    }
    pub fn tag(&mut self, t: &str) {
        *self.histogram.entry(t.to_string()).or_insert(0) += 1;
    }
    pub fn tagn(&mut self, t: &str, n: u64) {
        *self.histogram.entry(t.to_string()).or_insert(0) += n;
    }
    pub fn sample(&mut self, s: String) {
        if self.samples.len() < 12 {
            self.samples.push(s);
        }
    }
    pub fn write(&self, path: &str) {
        let mut f = std::fs::File::create(path).expect("stats file");
        let esc = |s: &str| {
            let mut o = String::new();
            for c in s.chars() {
                match c {
                    '"' => o.push_str("\\\""),
                    '\\' => o.push_str("\\\\"),
                    '\n' => o.push_str("\\n"),
                    c if (c as u32) < 0x20 => o.push_str(&format!("\\u{:04x}", c as u32)),
                    c => o.push(c),
                }
            }
            o
        };
        let hist: Vec<String> = self
            .histogram
            .iter()
            .map(|(k, v)| format!("\"{}\": {}", esc(k), v))
            .collect();
        let samples: Vec<String> = self.samples.iter().map(|s| format!("\"{}\"", esc(s))).collect();
        writeln!(
            f,
            "{{\"evaluations\": {}, \"distinct_nontrivial\": {}, \"rule\": \"{}\", \"exhaustive\": {}, \"impl_panics\": {}, \"histogram\": {{{}}}, \"samples\": [{}]}}",
            self.evaluations,
            self.distinct.len(),
            esc(&self.rule),
            self.exhaustive,
            self.impl_panics,
            hist.join(", "),
            samples.join(", ")
        )
        .unwrap();
    }
}

/// command-line options common to all sub-commands
pub struct Opts {
    pub tier: String,
    pub seed: u64,
    pub out: Option<String>,
    pub stats: Option<String>,
    pub replay: Option<String>,
    pub shard: u64,
    pub shards: u64,
    pub extra: Vec<String>,
}

impl Opts {
    pub fn parse(args: &[String]) -> Opts {
        let mut o = Opts {
            tier: std::env::var("VERIF_TIER").unwrap_or_else(|_| "quick".into()),
            seed: std::env::var("VERIF_SEED").ok().and_then(|s| s.parse().ok()).unwrap_or(1),
            out: None,
            stats: None,
            replay: None,
            shard: 0,
            shards: 1,
            extra: vec![],
        };
        let mut i = 0;
        while i < args.len() {
            match args[i].as_str() {
                "--tier" => {
                    o.tier = args[i + 1].clone();
                    i += 1
                }
                "--seed" => {
                    o.seed = args[i + 1].parse().unwrap();
                    i += 1
                }
                "--out" => {
                    o.out = Some(args[i + 1].clone());
                    i += 1
                }
                "--stats" => {
                    o.stats = Some(args[i + 1].clone());
                    i += 1
                }
                "--replay" => {
                    o.replay = Some(args[i + 1].clone());
                    i += 1
                }
                "--shard" => {
                    let p: Vec<&str> = args[i + 1].split('/').collect();
                    o.shard = p[0].parse().unwrap();
                    o.shards = p[1].parse().unwrap();
                    i += 1
                }
                x => o.extra.push(x.to_string()),
            }
            i += 1;
        }
        o
    }
    pub fn thorough(&self) -> bool {
        self.tier == "thorough"
    }
    pub fn writer(&self) -> Box<dyn Write> {
        let inner: Box<dyn Write + Send> = match &self.out {
            Some(p) => Box::new(std::io::BufWriter::with_capacity(
                1 << 20,
                std::fs::File::create(p).expect("out file"),
            )),
            None => Box::new(std::io::BufWriter::with_capacity(1 << 20, std::io::stdout())),
        };
        let shared = std::sync::Arc::new(std::sync::Mutex::new(inner));
        let _ = WATCH_OUT.set(shared.clone());
        Box::new(SharedWriter(shared))
    }
}

type SharedOut = std::sync::Arc<std::sync::Mutex<Box<dyn Write + Send>>>;

/// the line file, shared with the watchdog thread: when a call into the real code does not
/// return, the watchdog writes that op's line (`<op> => HANG ...`), flushes and ends the process
pub struct SharedWriter(SharedOut);
impl Write for SharedWriter {
    fn write(&mut self, buf: &[u8]) -> std::io::Result<usize> {
        self.0.lock().unwrap().write(buf)
    }
    fn flush(&mut self) -> std::io::Result<()> {
        self.0.lock().unwrap().flush()
    }
}
impl Drop for SharedWriter {
    // the watchdog's static keeps the inner writer alive: flush what the owner wrote
    fn drop(&mut self) {
        let _ = self.0.lock().unwrap().flush();
    }
}
static WATCH_OUT: std::sync::OnceLock<SharedOut> = std::sync::OnceLock::new();
static WATCH_OP: std::sync::Mutex<Option<(String, std::time::Instant)>> = std::sync::Mutex::new(None);
static WATCH_ON: std::sync::Once = std::sync::Once::new();

/// the op that is about to run on the real code (None: finished)
pub fn watch_op(op: Option<&str>) {
    *WATCH_OP.lock().unwrap() = op.map(|o| (o.to_string(), std::time::Instant::now()));
}

/// one op of the router harness is a bounded computation (milliseconds); one that is still
/// running after `limit_s` seconds has halted the routing core
pub fn start_watchdog(limit_s: u64) {
    WATCH_ON.call_once(|| {
        std::thread::spawn(move || loop {
            std::thread::sleep(std::time::Duration::from_millis(500));
            let hung = match &*WATCH_OP.lock().unwrap() {
                Some((op, t)) if t.elapsed().as_secs() >= limit_s => Some(op.clone()),
                _ => None,
            };
            if let Some(op) = hung {
                if let Some(out) = WATCH_OUT.get() {
                    let mut w = out.lock().unwrap();
                    let _ = writeln!(w, "{op} => HANG no return after {limit_s}s");
                    let _ = w.flush();
                }
                std::process::exit(0);
            }
        });
    });
}

/// silence the default panic hook (we run the real code under catch_unwind and report panics
/// ourselves); the message of the last panic is kept for replay files.
pub fn quiet_panics() {
    std::panic::set_hook(Box::new(|info| {
        let msg = format!("{}", info);
        LAST_PANIC.with(|l| *l.borrow_mut() = msg);
    }));
}
thread_local! {
    pub static LAST_PANIC: std::cell::RefCell<String> = std::cell::RefCell::new(String::new());
}
pub fn last_panic() -> String {
    LAST_PANIC.with(|l| l.borrow().replace('\n', " "))
}
