//! Codec differential harness: the four packet codec copies of rumqtt
//!   c4 = rumqttc::mqttbytes::v4::Packet          (client, MQTT 3.1.1)
//!   c5 = rumqttc::v5::mqttbytes::v5::Packet      (client, MQTT 5; Auth ignored)
//!   b4 = rumqttd::protocol::v4::V4               (broker, MQTT 3.1.1, shared Packet enum)
//!   b5 = rumqttd::protocol::v5::V5               (broker, MQTT 5, shared Packet enum)
//!
//! CANONICAL TEXT FORM (CTF) of a packet value. Tokens separated by single spaces, no token
//! contains a space or `|`.
//!   <hex>  lowercase hex of raw bytes, `-` for empty; ALL strings / byte strings are hex.
//!   <bool> 0|1   <qos> 0|1|2   numbers decimal.
//!   <props> `N` = None, else `S[item;item;...]` (`S[]` = Some(all empty)); one item per present
//!           field (Vec: one per element), in field-declaration order of the rumqttd struct.
//!           item = `<id>=<k><value>`, <id> decimal MQTT property id, <k>: b u8, w u16, d u32,
//!           s utf8 string (hex), x binary (hex), p user property `<hexkey>:<hexval>`,
//!           v variable-byte integer (usize, decimal).
//!   connect <level> <keepalive> <clientid:hex> <clean:bool> <props> <will> <login>
//!       <will>  := `-` | `W<topic:hex>,<message:hex>,<qos>,<retain:bool>,<willprops>`
//!       <login> := `-` | `L<username:hex>,<password:hex>`
//!   connack <session_present:bool> <code:Name> <props>
//!   publish <dup:bool> <qos> <retain:bool> <topic:hex> <pkid> <payload:hex> <props>
//!   puback|pubrec|pubrel|pubcomp <pkid> <reason:Name> <props>
//!   subscribe <pkid> <props> <filters>    `.` | f{,f}  f := <path:hex>/<qos>/<nolocal>/<preserve>/<rule 0|1|2>
//!   suback <pkid> <props> <codes>         `.` | Name{,Name}  (Success0 Success1 Success2 Failure QoS0 ...)
//!   unsubscribe <pkid> <props> <filters>  `.` | <hex>{,<hex>}
//!   unsuback <pkid> <props> <reasons>     `.` | Name{,Name}
//!   pingreq | pingresp
//!   disconnect <reason:Name> <props>
//!   Name = Rust variant name as `{:?}` prints it.
//!
//! LINE PROTOCOL
//!   (1) `<copy> <packet CTF> => <enc>|<size>|<self>|<cross>`
//!        ` => U` when the copy's real struct cannot hold the value.
//!        enc   `W<n>:<hex of whole buffer>` | `E` (Err) | `P` (panic); write into an empty BytesMut.
//!        a fifth section `A=` / `A!` / `AE` / `AP` / `A-`: the same value written behind a non-empty buffer.
//!        size  client copies `Z<n>` | `ZP`; broker copies `Z-`.
//!        self  decode (produced bytes ++ c0 00) with the same copy: `D<consumed> <ctf or =>` | `DE` | `DP`
//!              (`=` when the decoded value equals the input); `D-` when enc is not W.
//!        cross same stream, other crate's decoder of the same version (c4<->b4, c5<->b5):
//!              `X<consumed> <ctf or =>` | `XE` | `XP` | `X-`.
//!        e.g. `c4 puback 7 Success N => W4:40020007|Z4|D4 =|X4 =`
//!   (2) `dec <copy> <hex> => D<consumed> <ctf>` | `DE` | `DP`   (decodes bytes ++ c0 00)
//!   max_size: 1<<30 for reads (c5: None), usize::MAX / None for writes.
use crate::util::{last_panic, Opts, Rng, Stats};
use bytes::{Bytes, BytesMut};
use rumqttd::protocol::Protocol as _;
use std::fmt::Write as _;
use std::io::Write as _;
use std::panic::{catch_unwind, AssertUnwindSafe};

// ------------------------------------------------------------------------------------------
// hex helpers (same format as util::hex / util::unhex, but fast enough for 2 MiB payloads)
// ------------------------------------------------------------------------------------------
const HEXD: &[u8; 16] = b"0123456789abcdef";

fn hex_into(o: &mut String, b: &[u8]) {
    if b.is_empty() {
        o.push('-');
        return;
    }
    // SAFETY: only ASCII bytes are appended, the String stays valid UTF-8.
    let v = unsafe { o.as_mut_vec() };
    v.reserve(b.len() * 2);
    for x in b {
        v.push(HEXD[(x >> 4) as usize]);
        v.push(HEXD[(x & 15) as usize]);
    }
}

fn unhex_strict(s: &str) -> Option<Vec<u8>> {
    if s == "-" {
        return Some(vec![]);
    }
    let b = s.as_bytes();
    if b.is_empty() || b.len() % 2 != 0 {
        return None;
    }
    fn nib(c: u8) -> Option<u8> {
        match c {
            b'0'..=b'9' => Some(c - b'0'),
            b'a'..=b'f' => Some(c - b'a' + 10),
            _ => None,
        }
    }
    let mut out = Vec::with_capacity(b.len() / 2);
    for p in b.chunks_exact(2) {
        out.push((nib(p[0])? << 4) | nib(p[1])?);
    }
    Some(out)
}

/// strict decimal: digits only, no leading zero (except "0"), no sign
fn num<T: std::str::FromStr>(s: &str) -> Option<T> {
    let b = s.as_bytes();
    if b.is_empty() || !b.iter().all(|c| c.is_ascii_digit()) || (b.len() > 1 && b[0] == b'0') {
        return None;
    }
    s.parse().ok()
}

fn boolean(s: &str) -> Option<bool> {
    match s {
        "0" => Some(false),
        "1" => Some(true),
        _ => None,
    }
}

fn qosn(s: &str) -> Option<u8> {
    match s {
        "0" => Some(0),
        "1" => Some(1),
        "2" => Some(2),
        _ => None,
    }
}

// ------------------------------------------------------------------------------------------
// unified packet value
// ------------------------------------------------------------------------------------------
#[derive(Clone, PartialEq, Eq, Debug, Hash)]
pub enum UVal {
    B(u8),
    W(u16),
    D(u32),
    S(Vec<u8>),
    X(Vec<u8>),
    P(Vec<u8>, Vec<u8>),
    V(usize),
}

#[derive(Clone, PartialEq, Eq, Debug, Hash)]
pub struct UProp {
    pub id: u8,
    pub val: UVal,
}

pub type UProps = Option<Vec<UProp>>;

#[derive(Clone, PartialEq, Eq, Debug, Hash)]
pub struct UWill {
    pub topic: Vec<u8>,
    pub message: Vec<u8>,
    pub qos: u8,
    pub retain: bool,
    pub props: UProps,
}

#[derive(Clone, PartialEq, Eq, Debug, Hash)]
pub struct ULogin {
    pub username: Vec<u8>,
    pub password: Vec<u8>,
}

#[derive(Clone, PartialEq, Eq, Debug, Hash)]
pub struct UFilter {
    pub path: Vec<u8>,
    pub qos: u8,
    pub nolocal: bool,
    pub preserve: bool,
    pub rule: u8,
}

#[derive(Clone, Copy, PartialEq, Eq, Debug, Hash)]
pub enum AckKind {
    PubAck,
    PubRec,
    PubRel,
    PubComp,
}

impl AckKind {
    fn name(self) -> &'static str {
        match self {
            AckKind::PubAck => "puback",
            AckKind::PubRec => "pubrec",
            AckKind::PubRel => "pubrel",
            AckKind::PubComp => "pubcomp",
        }
    }
}

#[derive(Clone, PartialEq, Eq, Debug, Hash)]
pub enum UPacket {
    Connect {
        level: u8,
        keepalive: u16,
        client_id: Vec<u8>,
        clean: bool,
        props: UProps,
        will: Option<UWill>,
        login: Option<ULogin>,
    },
    ConnAck {
        session_present: bool,
        code: String,
        props: UProps,
    },
    Publish {
        dup: bool,
        qos: u8,
        retain: bool,
        topic: Vec<u8>,
        pkid: u16,
        payload: Vec<u8>,
        props: UProps,
    },
    Ack {
        kind: AckKind,
        pkid: u16,
        reason: String,
        props: UProps,
    },
    Subscribe {
        pkid: u16,
        props: UProps,
        filters: Vec<UFilter>,
    },
    SubAck {
        pkid: u16,
        props: UProps,
        codes: Vec<String>,
    },
    Unsubscribe {
        pkid: u16,
        props: UProps,
        filters: Vec<Vec<u8>>,
    },
    UnsubAck {
        pkid: u16,
        props: UProps,
        reasons: Vec<String>,
    },
    PingReq,
    PingResp,
    Disconnect {
        reason: String,
        props: UProps,
    },
    /// only so that `from_c5` is total; no decoder ever produces it, no copy accepts it
    Auth,
}

pub fn kind_name(u: &UPacket) -> &'static str {
    match u {
        UPacket::Connect { .. } => "connect",
        UPacket::ConnAck { .. } => "connack",
        UPacket::Publish { .. } => "publish",
        UPacket::Ack { kind, .. } => kind.name(),
        UPacket::Subscribe { .. } => "subscribe",
        UPacket::SubAck { .. } => "suback",
        UPacket::Unsubscribe { .. } => "unsubscribe",
        UPacket::UnsubAck { .. } => "unsuback",
        UPacket::PingReq => "pingreq",
        UPacket::PingResp => "pingresp",
        UPacket::Disconnect { .. } => "disconnect",
        UPacket::Auth => "auth",
    }
}

// ------------------------------------------------------------------------------------------
// CTF printer
// ------------------------------------------------------------------------------------------
fn b01(o: &mut String, b: bool) {
    o.push(if b { '1' } else { '0' });
}

fn ctf_props(o: &mut String, p: &UProps) {
    match p {
        None => o.push('N'),
        Some(items) => {
            o.push_str("S[");
            for (i, it) in items.iter().enumerate() {
                if i > 0 {
                    o.push(';');
                }
                let _ = write!(o, "{}=", it.id);
                match &it.val {
                    UVal::B(x) => {
                        let _ = write!(o, "b{}", x);
                    }
                    UVal::W(x) => {
                        let _ = write!(o, "w{}", x);
                    }
                    UVal::D(x) => {
                        let _ = write!(o, "d{}", x);
                    }
                    UVal::V(x) => {
                        let _ = write!(o, "v{}", x);
                    }
                    UVal::S(x) => {
                        o.push('s');
                        hex_into(o, x);
                    }
                    UVal::X(x) => {
                        o.push('x');
                        hex_into(o, x);
                    }
                    UVal::P(k, v) => {
                        o.push('p');
                        hex_into(o, k);
                        o.push(':');
                        hex_into(o, v);
                    }
                }
            }
            o.push(']');
        }
    }
}

fn ctf_names(o: &mut String, names: &[String]) {
    if names.is_empty() {
        o.push('.');
    }
    for (i, n) in names.iter().enumerate() {
        if i > 0 {
            o.push(',');
        }
        o.push_str(n);
    }
}

pub fn ctf_into(o: &mut String, u: &UPacket) {
    match u {
        UPacket::Connect { level, keepalive, client_id, clean, props, will, login } => {
            let _ = write!(o, "connect {} {} ", level, keepalive);
            hex_into(o, client_id);
            o.push(' ');
            b01(o, *clean);
            o.push(' ');
            ctf_props(o, props);
            o.push(' ');
            match will {
                None => o.push('-'),
                Some(w) => {
                    o.push('W');
                    hex_into(o, &w.topic);
                    o.push(',');
                    hex_into(o, &w.message);
                    let _ = write!(o, ",{},", w.qos);
                    b01(o, w.retain);
                    o.push(',');
                    ctf_props(o, &w.props);
                }
            }
            o.push(' ');
            match login {
                None => o.push('-'),
                Some(l) => {
                    o.push('L');
                    hex_into(o, &l.username);
                    o.push(',');
                    hex_into(o, &l.password);
                }
            }
        }
        UPacket::ConnAck { session_present, code, props } => {
            o.push_str("connack ");
            b01(o, *session_present);
            o.push(' ');
            o.push_str(code);
            o.push(' ');
            ctf_props(o, props);
        }
        UPacket::Publish { dup, qos, retain, topic, pkid, payload, props } => {
            o.push_str("publish ");
            b01(o, *dup);
            let _ = write!(o, " {} ", qos);
            b01(o, *retain);
            o.push(' ');
            hex_into(o, topic);
            let _ = write!(o, " {} ", pkid);
            hex_into(o, payload);
            o.push(' ');
            ctf_props(o, props);
        }
        UPacket::Ack { kind, pkid, reason, props } => {
            let _ = write!(o, "{} {} {} ", kind.name(), pkid, reason);
            ctf_props(o, props);
        }
        UPacket::Subscribe { pkid, props, filters } => {
            let _ = write!(o, "subscribe {} ", pkid);
            ctf_props(o, props);
            o.push(' ');
            if filters.is_empty() {
                o.push('.');
            }
            for (i, f) in filters.iter().enumerate() {
                if i > 0 {
                    o.push(',');
                }
                hex_into(o, &f.path);
                let _ = write!(o, "/{}/", f.qos);
                b01(o, f.nolocal);
                o.push('/');
                b01(o, f.preserve);
                let _ = write!(o, "/{}", f.rule);
            }
        }
        UPacket::SubAck { pkid, props, codes } => {
            let _ = write!(o, "suback {} ", pkid);
            ctf_props(o, props);
            o.push(' ');
            ctf_names(o, codes);
        }
        UPacket::Unsubscribe { pkid, props, filters } => {
            let _ = write!(o, "unsubscribe {} ", pkid);
            ctf_props(o, props);
            o.push(' ');
            if filters.is_empty() {
                o.push('.');
            }
            for (i, f) in filters.iter().enumerate() {
                if i > 0 {
                    o.push(',');
                }
                hex_into(o, f);
            }
        }
        UPacket::UnsubAck { pkid, props, reasons } => {
            let _ = write!(o, "unsuback {} ", pkid);
            ctf_props(o, props);
            o.push(' ');
            ctf_names(o, reasons);
        }
        UPacket::PingReq => o.push_str("pingreq"),
        UPacket::PingResp => o.push_str("pingresp"),
        UPacket::Disconnect { reason, props } => {
            let _ = write!(o, "disconnect {} ", reason);
            ctf_props(o, props);
        }
        UPacket::Auth => o.push_str("auth"),
    }
}

pub fn ctf(u: &UPacket) -> String {
    let mut s = String::new();
    ctf_into(&mut s, u);
    s
}

// ------------------------------------------------------------------------------------------
// CTF parser (exact inverse of the printer)
// ------------------------------------------------------------------------------------------
fn parse_props(s: &str) -> Option<UProps> {
    if s == "N" {
        return Some(None);
    }
    let inner = s.strip_prefix("S[")?.strip_suffix(']')?;
    if inner.is_empty() {
        return Some(Some(vec![]));
    }
    let mut v = Vec::new();
    for item in inner.split(';') {
        let (id, rest) = item.split_once('=')?;
        let id: u8 = num(id)?;
        let k = *rest.as_bytes().first()?;
        let val = &rest[1..];
        let val = match k {
            b'b' => UVal::B(num(val)?),
            b'w' => UVal::W(num(val)?),
            b'd' => UVal::D(num(val)?),
            b'v' => UVal::V(num(val)?),
            b's' => UVal::S(unhex_strict(val)?),
            b'x' => UVal::X(unhex_strict(val)?),
            b'p' => {
                let (a, b) = val.split_once(':')?;
                UVal::P(unhex_strict(a)?, unhex_strict(b)?)
            }
            _ => return None,
        };
        v.push(UProp { id, val });
    }
    Some(Some(v))
}

fn parse_name(s: &str) -> Option<String> {
    if s.is_empty() || !s.bytes().all(|c| c.is_ascii_alphanumeric()) {
        return None;
    }
    Some(s.to_string())
}

fn parse_names(s: &str) -> Option<Vec<String>> {
    if s == "." {
        return Some(vec![]);
    }
    s.split(',').map(parse_name).collect()
}

pub fn parse_ctf(t: &[&str]) -> Option<UPacket> {
    let n = t.len();
    let need = |k: usize| if n == k { Some(()) } else { None };
    Some(match *t.first()? {
        "connect" => {
            need(8)?;
            let will = if t[6] == "-" {
                None
            } else {
                let w: Vec<&str> = t[6].strip_prefix('W')?.splitn(5, ',').collect();
                if w.len() != 5 {
                    return None;
                }
                Some(UWill {
                    topic: unhex_strict(w[0])?,
                    message: unhex_strict(w[1])?,
                    qos: qosn(w[2])?,
                    retain: boolean(w[3])?,
                    props: parse_props(w[4])?,
                })
            };
            let login = if t[7] == "-" {
                None
            } else {
                let (a, b) = t[7].strip_prefix('L')?.split_once(',')?;
                Some(ULogin { username: unhex_strict(a)?, password: unhex_strict(b)? })
            };
            UPacket::Connect {
                level: num(t[1])?,
                keepalive: num(t[2])?,
                client_id: unhex_strict(t[3])?,
                clean: boolean(t[4])?,
                props: parse_props(t[5])?,
                will,
                login,
            }
        }
        "connack" => {
            need(4)?;
            UPacket::ConnAck { session_present: boolean(t[1])?, code: parse_name(t[2])?, props: parse_props(t[3])? }
        }
        "publish" => {
            need(8)?;
            UPacket::Publish {
                dup: boolean(t[1])?,
                qos: qosn(t[2])?,
                retain: boolean(t[3])?,
                topic: unhex_strict(t[4])?,
                pkid: num(t[5])?,
                payload: unhex_strict(t[6])?,
                props: parse_props(t[7])?,
            }
        }
        k @ ("puback" | "pubrec" | "pubrel" | "pubcomp") => {
            need(4)?;
            let kind = match k {
                "puback" => AckKind::PubAck,
                "pubrec" => AckKind::PubRec,
                "pubrel" => AckKind::PubRel,
                _ => AckKind::PubComp,
            };
            UPacket::Ack { kind, pkid: num(t[1])?, reason: parse_name(t[2])?, props: parse_props(t[3])? }
        }
        "subscribe" => {
            need(4)?;
            let mut filters = vec![];
            if t[3] != "." {
                for f in t[3].split(',') {
                    let p: Vec<&str> = f.split('/').collect();
                    if p.len() != 5 {
                        return None;
                    }
                    filters.push(UFilter {
                        path: unhex_strict(p[0])?,
                        qos: qosn(p[1])?,
                        nolocal: boolean(p[2])?,
                        preserve: boolean(p[3])?,
                        rule: qosn(p[4])?,
                    });
                }
            }
            UPacket::Subscribe { pkid: num(t[1])?, props: parse_props(t[2])?, filters }
        }
        "suback" => {
            need(4)?;
            UPacket::SubAck { pkid: num(t[1])?, props: parse_props(t[2])?, codes: parse_names(t[3])? }
        }
        "unsubscribe" => {
            need(4)?;
            let filters = if t[3] == "." {
                vec![]
            } else {
                t[3].split(',').map(unhex_strict).collect::<Option<Vec<_>>>()?
            };
            UPacket::Unsubscribe { pkid: num(t[1])?, props: parse_props(t[2])?, filters }
        }
        "unsuback" => {
            need(4)?;
            UPacket::UnsubAck { pkid: num(t[1])?, props: parse_props(t[2])?, reasons: parse_names(t[3])? }
        }
        "pingreq" => {
            need(1)?;
            UPacket::PingReq
        }
        "pingresp" => {
            need(1)?;
            UPacket::PingResp
        }
        "disconnect" => {
            need(3)?;
            UPacket::Disconnect { reason: parse_name(t[1])?, props: parse_props(t[2])? }
        }
        "auth" => {
            need(1)?;
            UPacket::Auth
        }
        _ => return None,
    })
}

// ------------------------------------------------------------------------------------------
// property structs <-> item lists (one macro, instantiated for the client-v5 and broker structs,
// which have identical field names in identical order)
// ------------------------------------------------------------------------------------------
impl UVal {
    fn b(&self) -> Option<u8> {
        if let UVal::B(x) = self {
            Some(*x)
        } else {
            None
        }
    }
    fn w(&self) -> Option<u16> {
        if let UVal::W(x) = self {
            Some(*x)
        } else {
            None
        }
    }
    fn d(&self) -> Option<u32> {
        if let UVal::D(x) = self {
            Some(*x)
        } else {
            None
        }
    }
    fn v(&self) -> Option<usize> {
        if let UVal::V(x) = self {
            Some(*x)
        } else {
            None
        }
    }
    fn s(&self) -> Option<String> {
        if let UVal::S(x) = self {
            String::from_utf8(x.clone()).ok()
        } else {
            None
        }
    }
    fn x(&self) -> Option<Bytes> {
        if let UVal::X(x) = self {
            Some(Bytes::copy_from_slice(x))
        } else {
            None
        }
    }
    fn p(&self) -> Option<(String, String)> {
        if let UVal::P(k, v) = self {
            Some((String::from_utf8(k.clone()).ok()?, String::from_utf8(v.clone()).ok()?))
        } else {
            None
        }
    }
}

fn set1<T>(f: &mut Option<T>, v: Option<T>) -> Option<()> {
    if f.is_some() {
        return None;
    }
    *f = Some(v?);
    Some(())
}

fn pushv<T>(f: &mut Vec<T>, v: Option<T>) -> Option<()> {
    f.push(v?);
    Some(())
}

fn st(v: &[u8]) -> Option<String> {
    String::from_utf8(v.to_vec()).ok()
}

fn by(v: &[u8]) -> Bytes {
    Bytes::copy_from_slice(v)
}

macro_rules! pset {
    (ob, $f:expr, $v:expr) => {
        set1(&mut $f, $v.b())
    };
    (ow, $f:expr, $v:expr) => {
        set1(&mut $f, $v.w())
    };
    (od, $f:expr, $v:expr) => {
        set1(&mut $f, $v.d())
    };
    (ov, $f:expr, $v:expr) => {
        set1(&mut $f, $v.v())
    };
    (os, $f:expr, $v:expr) => {
        set1(&mut $f, $v.s())
    };
    (ox, $f:expr, $v:expr) => {
        set1(&mut $f, $v.x())
    };
    (up, $f:expr, $v:expr) => {
        pushv(&mut $f, $v.p())
    };
    (vv, $f:expr, $v:expr) => {
        pushv(&mut $f, $v.v())
    };
}

macro_rules! pget {
    (ob, $o:ident, $id:expr, $f:expr) => {
        if let Some(x) = &$f {
            $o.push(UProp { id: $id, val: UVal::B(*x) });
        }
    };
    (ow, $o:ident, $id:expr, $f:expr) => {
        if let Some(x) = &$f {
            $o.push(UProp { id: $id, val: UVal::W(*x) });
        }
    };
    (od, $o:ident, $id:expr, $f:expr) => {
        if let Some(x) = &$f {
            $o.push(UProp { id: $id, val: UVal::D(*x) });
        }
    };
    (ov, $o:ident, $id:expr, $f:expr) => {
        if let Some(x) = &$f {
            $o.push(UProp { id: $id, val: UVal::V(*x) });
        }
    };
    (os, $o:ident, $id:expr, $f:expr) => {
        if let Some(x) = &$f {
            $o.push(UProp { id: $id, val: UVal::S(x.as_bytes().to_vec()) });
        }
    };
    (ox, $o:ident, $id:expr, $f:expr) => {
        if let Some(x) = &$f {
            $o.push(UProp { id: $id, val: UVal::X(x.to_vec()) });
        }
    };
    (up, $o:ident, $id:expr, $f:expr) => {
        for (k, v) in &$f {
            $o.push(UProp { id: $id, val: UVal::P(k.as_bytes().to_vec(), v.as_bytes().to_vec()) });
        }
    };
    (vv, $o:ident, $id:expr, $f:expr) => {
        for x in &$f {
            $o.push(UProp { id: $id, val: UVal::V(*x) });
        }
    };
}

macro_rules! pstruct {
    ($to:ident, $from:ident, $T:ident { $($f:ident : $id:literal $k:ident),* $(,)? }) => {
        pub fn $from(p: &Option<$T>) -> UProps {
            let p = p.as_ref()?;
            let mut o = Vec::new();
            $( pget!($k, o, $id, p.$f); )*
            Some(o)
        }
        pub fn $to(u: &UProps) -> Option<Option<$T>> {
            let items = match u { None => return Some(None), Some(i) => i };
            let mut s = $T { $( $f: Default::default() ),* };
            for it in items {
                match it.id {
                    $( $id => pset!($k, s.$f, it.val)?, )*
                    _ => return None,
                }
            }
            Some(Some(s))
        }
    };
}

macro_rules! all_props {
    () => {
        pstruct!(to_connect, from_connect, ConnectProperties {
            session_expiry_interval: 17 od, receive_maximum: 33 ow, max_packet_size: 39 od,
            topic_alias_max: 34 ow, request_response_info: 25 ob, request_problem_info: 23 ob,
            user_properties: 38 up, authentication_method: 21 os, authentication_data: 22 ox });
        pstruct!(to_will, from_will, LastWillProperties {
            delay_interval: 24 od, payload_format_indicator: 1 ob, message_expiry_interval: 2 od,
            content_type: 3 os, response_topic: 8 os, correlation_data: 9 ox, user_properties: 38 up });
        pstruct!(to_connack, from_connack, ConnAckProperties {
            session_expiry_interval: 17 od, receive_max: 33 ow, max_qos: 36 ob, retain_available: 37 ob,
            max_packet_size: 39 od, assigned_client_identifier: 18 os, topic_alias_max: 34 ow,
            reason_string: 31 os, user_properties: 38 up, wildcard_subscription_available: 40 ob,
            subscription_identifiers_available: 41 ob, shared_subscription_available: 42 ob,
            server_keep_alive: 19 ow, response_information: 26 os, server_reference: 28 os,
            authentication_method: 21 os, authentication_data: 22 ox });
        pstruct!(to_publish, from_publish, PublishProperties {
            payload_format_indicator: 1 ob, message_expiry_interval: 2 od, topic_alias: 35 ow,
            response_topic: 8 os, correlation_data: 9 ox, user_properties: 38 up,
            subscription_identifiers: 11 vv, content_type: 3 os });
        pstruct!(to_puback, from_puback, PubAckProperties { reason_string: 31 os, user_properties: 38 up });
        pstruct!(to_pubrec, from_pubrec, PubRecProperties { reason_string: 31 os, user_properties: 38 up });
        pstruct!(to_pubrel, from_pubrel, PubRelProperties { reason_string: 31 os, user_properties: 38 up });
        pstruct!(to_pubcomp, from_pubcomp, PubCompProperties { reason_string: 31 os, user_properties: 38 up });
        pstruct!(to_subscribe, from_subscribe, SubscribeProperties { id: 11 ov, user_properties: 38 up });
        pstruct!(to_suback, from_suback, SubAckProperties { reason_string: 31 os, user_properties: 38 up });
        pstruct!(to_unsubscribe, from_unsubscribe, UnsubscribeProperties { user_properties: 38 up });
        pstruct!(to_unsuback, from_unsuback, UnsubAckProperties { reason_string: 31 os, user_properties: 38 up });
        pstruct!(to_disconnect, from_disconnect, DisconnectProperties {
            session_expiry_interval: 17 od, reason_string: 31 os, user_properties: 38 up,
            server_reference: 28 os });
    };
}

/// name list + name -> variant map, with a compile-time exhaustiveness check
macro_rules! names {
    ($cname:ident, $fname:ident, $T:ty, [$($v:ident),* $(,)?]) => {
        pub const $cname: &[&str] = &[$(stringify!($v)),*];
        pub fn $fname(s: &str) -> Option<$T> {
            $( if s == stringify!($v) { return Some(<$T>::$v); } )*
            None
        }
        const _: fn($T) = |x: $T| match x { $(<$T>::$v => {}),* };
    };
}

macro_rules! v5_names {
    () => {
        names!(PUBACK, puback_reason, PubAckReason, [Success, NoMatchingSubscribers, UnspecifiedError,
            ImplementationSpecificError, NotAuthorized, TopicNameInvalid, PacketIdentifierInUse,
            QuotaExceeded, PayloadFormatInvalid]);
        names!(PUBREC, pubrec_reason, PubRecReason, [Success, NoMatchingSubscribers, UnspecifiedError,
            ImplementationSpecificError, NotAuthorized, TopicNameInvalid, PacketIdentifierInUse,
            QuotaExceeded, PayloadFormatInvalid]);
        names!(PUBREL, pubrel_reason, PubRelReason, [Success, PacketIdentifierNotFound]);
        names!(PUBCOMP, pubcomp_reason, PubCompReason, [Success, PacketIdentifierNotFound]);
        names!(UNSUBACK, unsuback_reason, UnsubAckReason, [Success, NoSubscriptionExisted,
            UnspecifiedError, ImplementationSpecificError, NotAuthorized, TopicFilterInvalid,
            PacketIdentifierInUse]);
        names!(DISCONNECT, disconnect_reason, DisconnectReasonCode, [NormalDisconnection,
            DisconnectWithWillMessage, UnspecifiedError, MalformedPacket, ProtocolError,
            ImplementationSpecificError, NotAuthorized, ServerBusy, ServerShuttingDown,
            KeepAliveTimeout, SessionTakenOver, TopicFilterInvalid, TopicNameInvalid,
            ReceiveMaximumExceeded, TopicAliasInvalid, PacketTooLarge, MessageRateTooHigh,
            QuotaExceeded, AdministrativeAction, PayloadFormatInvalid, RetainNotSupported,
            QoSNotSupported, UseAnotherServer, ServerMoved, SharedSubscriptionNotSupported,
            ConnectionRateExceeded, MaximumConnectTime, SubscriptionIdentifiersNotSupported,
            WildcardSubscriptionsNotSupported]);
    };
}

macro_rules! qos_fns {
    () => {
        fn q(n: u8) -> Option<QoS> {
            match n {
                0 => Some(QoS::AtMostOnce),
                1 => Some(QoS::AtLeastOnce),
                2 => Some(QoS::ExactlyOnce),
                _ => None,
            }
        }
    };
}

macro_rules! rule_fns {
    () => {
        fn rule(n: u8) -> Option<RetainForwardRule> {
            match n {
                0 => Some(RetainForwardRule::OnEverySubscribe),
                1 => Some(RetainForwardRule::OnNewSubscribe),
                2 => Some(RetainForwardRule::Never),
                _ => None,
            }
        }
        fn rule_n(r: &RetainForwardRule) -> u8 {
            match r {
                RetainForwardRule::OnEverySubscribe => 0,
                RetainForwardRule::OnNewSubscribe => 1,
                RetainForwardRule::Never => 2,
            }
        }
    };
}

const SUCCESS: &str = "Success";
const NORMAL: &str = "NormalDisconnection";

// ------------------------------------------------------------------------------------------
// c4: rumqttc::mqttbytes::v4
// ------------------------------------------------------------------------------------------
pub mod k4 {
    use super::*;
    use rumqttc::mqttbytes::v4::*;
    use rumqttc::mqttbytes::{Protocol, QoS};
    qos_fns!();
    names!(CONNACK, connack_code, ConnectReturnCode, [Success, RefusedProtocolVersion, BadClientId,
        ServiceUnavailable, BadUserNamePassword, NotAuthorized]);
    pub const SUBACK: &[&str] = &["Success0", "Success1", "Success2", "Failure"];

    fn suback_code(s: &str) -> Option<SubscribeReasonCode> {
        Some(match s {
            "Success0" => SubscribeReasonCode::Success(QoS::AtMostOnce),
            "Success1" => SubscribeReasonCode::Success(QoS::AtLeastOnce),
            "Success2" => SubscribeReasonCode::Success(QoS::ExactlyOnce),
            "Failure" => SubscribeReasonCode::Failure,
            _ => return None,
        })
    }

    fn ack_ok(reason: &str, props: &UProps) -> Option<()> {
        if reason == SUCCESS && props.is_none() {
            Some(())
        } else {
            None
        }
    }

    pub fn to(u: &UPacket) -> Option<Packet> {
        Some(match u {
            UPacket::Connect { level, keepalive, client_id, clean, props, will, login } => {
                if props.is_some() {
                    return None;
                }
                let protocol = match level {
                    4 => Protocol::V4,
                    5 => Protocol::V5,
                    _ => return None,
                };
                let last_will = match will {
                    None => None,
                    Some(w) => {
                        if w.props.is_some() {
                            return None;
                        }
                        Some(LastWill { topic: st(&w.topic)?, message: by(&w.message), qos: q(w.qos)?, retain: w.retain })
                    }
                };
                let login = match login {
                    None => None,
                    Some(l) => Some(Login { username: st(&l.username)?, password: st(&l.password)? }),
                };
                Packet::Connect(Connect {
                    protocol,
                    keep_alive: *keepalive,
                    client_id: st(client_id)?,
                    clean_session: *clean,
                    last_will,
                    login,
                })
            }
            UPacket::ConnAck { session_present, code, props } => {
                if props.is_some() {
                    return None;
                }
                Packet::ConnAck(ConnAck { session_present: *session_present, code: connack_code(code)? })
            }
            UPacket::Publish { dup, qos, retain, topic, pkid, payload, props } => {
                if props.is_some() {
                    return None;
                }
                Packet::Publish(Publish {
                    dup: *dup,
                    qos: q(*qos)?,
                    retain: *retain,
                    topic: st(topic)?,
                    pkid: *pkid,
                    payload: by(payload),
                })
            }
            UPacket::Ack { kind, pkid, reason, props } => {
                ack_ok(reason, props)?;
                match kind {
                    AckKind::PubAck => Packet::PubAck(PubAck { pkid: *pkid }),
                    AckKind::PubRec => Packet::PubRec(PubRec { pkid: *pkid }),
                    AckKind::PubRel => Packet::PubRel(PubRel { pkid: *pkid }),
                    AckKind::PubComp => Packet::PubComp(PubComp { pkid: *pkid }),
                }
            }
            UPacket::Subscribe { pkid, props, filters } => {
                if props.is_some() {
                    return None;
                }
                let mut fs = Vec::with_capacity(filters.len());
                for f in filters {
                    if f.nolocal || f.preserve || f.rule != 0 {
                        return None;
                    }
                    fs.push(SubscribeFilter { path: st(&f.path)?, qos: q(f.qos)? });
                }
                Packet::Subscribe(Subscribe { pkid: *pkid, filters: fs })
            }
            UPacket::SubAck { pkid, props, codes } => {
                if props.is_some() {
                    return None;
                }
                let rc = codes.iter().map(|c| suback_code(c)).collect::<Option<Vec<_>>>()?;
                Packet::SubAck(SubAck { pkid: *pkid, return_codes: rc })
            }
            UPacket::Unsubscribe { pkid, props, filters } => {
                if props.is_some() {
                    return None;
                }
                let topics = filters.iter().map(|f| st(f)).collect::<Option<Vec<_>>>()?;
                Packet::Unsubscribe(Unsubscribe { pkid: *pkid, topics })
            }
            UPacket::UnsubAck { pkid, props, reasons } => {
                if props.is_some() || !reasons.is_empty() {
                    return None;
                }
                Packet::UnsubAck(UnsubAck { pkid: *pkid })
            }
            UPacket::PingReq => Packet::PingReq,
            UPacket::PingResp => Packet::PingResp,
            UPacket::Disconnect { reason, props } => {
                if reason != NORMAL || props.is_some() {
                    return None;
                }
                Packet::Disconnect
            }
            UPacket::Auth => return None,
        })
    }

    fn ack(kind: AckKind, pkid: u16) -> UPacket {
        UPacket::Ack { kind, pkid, reason: SUCCESS.to_string(), props: None }
    }

    pub fn from(p: &Packet) -> UPacket {
        match p {
            Packet::Connect(c) => UPacket::Connect {
                level: match c.protocol {
                    Protocol::V4 => 4,
                    Protocol::V5 => 5,
                },
                keepalive: c.keep_alive,
                client_id: c.client_id.as_bytes().to_vec(),
                clean: c.clean_session,
                props: None,
                will: c.last_will.as_ref().map(|w| UWill {
                    topic: w.topic.as_bytes().to_vec(),
                    message: w.message.to_vec(),
                    qos: w.qos as u8,
                    retain: w.retain,
                    props: None,
                }),
                login: c.login.as_ref().map(|l| ULogin {
                    username: l.username.as_bytes().to_vec(),
                    password: l.password.as_bytes().to_vec(),
                }),
            },
            Packet::ConnAck(c) => UPacket::ConnAck {
                session_present: c.session_present,
                code: format!("{:?}", c.code),
                props: None,
            },
            Packet::Publish(p) => UPacket::Publish {
                dup: p.dup,
                qos: p.qos as u8,
                retain: p.retain,
                topic: p.topic.as_bytes().to_vec(),
                pkid: p.pkid,
                payload: p.payload.to_vec(),
                props: None,
            },
            Packet::PubAck(a) => ack(AckKind::PubAck, a.pkid),
            Packet::PubRec(a) => ack(AckKind::PubRec, a.pkid),
            Packet::PubRel(a) => ack(AckKind::PubRel, a.pkid),
            Packet::PubComp(a) => ack(AckKind::PubComp, a.pkid),
            Packet::Subscribe(s) => UPacket::Subscribe {
                pkid: s.pkid,
                props: None,
                filters: s
                    .filters
                    .iter()
                    .map(|f| UFilter {
                        path: f.path.as_bytes().to_vec(),
                        qos: f.qos as u8,
                        nolocal: false,
                        preserve: false,
                        rule: 0,
                    })
                    .collect(),
            },
            Packet::SubAck(s) => UPacket::SubAck {
                pkid: s.pkid,
                props: None,
                codes: s
                    .return_codes
                    .iter()
                    .map(|c| match c {
                        SubscribeReasonCode::Success(q) => format!("Success{}", *q as u8),
                        SubscribeReasonCode::Failure => "Failure".to_string(),
                    })
                    .collect(),
            },
            Packet::Unsubscribe(u) => UPacket::Unsubscribe {
                pkid: u.pkid,
                props: None,
                filters: u.topics.iter().map(|t| t.as_bytes().to_vec()).collect(),
            },
            Packet::UnsubAck(u) => UPacket::UnsubAck { pkid: u.pkid, props: None, reasons: vec![] },
            Packet::PingReq => UPacket::PingReq,
            Packet::PingResp => UPacket::PingResp,
            Packet::Disconnect => UPacket::Disconnect { reason: NORMAL.to_string(), props: None },
        }
    }
}

// ------------------------------------------------------------------------------------------
// c5: rumqttc::v5::mqttbytes::v5
// ------------------------------------------------------------------------------------------
pub mod k5 {
    use super::*;
    use rumqttc::v5::mqttbytes::v5::*;
    use rumqttc::v5::mqttbytes::QoS;
    qos_fns!();
    rule_fns!();
    all_props!();
    v5_names!();
    names!(CONNACK, connack_code, ConnectReturnCode, [Success, RefusedProtocolVersion, BadClientId,
        ServiceUnavailable, UnspecifiedError, MalformedPacket, ProtocolError,
        ImplementationSpecificError, UnsupportedProtocolVersion, ClientIdentifierNotValid,
        BadUserNamePassword, NotAuthorized, ServerUnavailable, ServerBusy, Banned,
        BadAuthenticationMethod, TopicNameInvalid, PacketTooLarge, QuotaExceeded,
        PayloadFormatInvalid, RetainNotSupported, QoSNotSupported, UseAnotherServer, ServerMoved,
        ConnectionRateExceeded]);
    pub const SUBACK: &[&str] = &[
        "Success0", "Success1", "Success2", "Failure", "Unspecified", "ImplementationSpecific",
        "NotAuthorized", "TopicFilterInvalid", "PkidInUse", "QuotaExceeded",
        "SharedSubscriptionsNotSupported", "SubscriptionIdNotSupported",
        "WildcardSubscriptionsNotSupported",
    ];

    fn suback_code(s: &str) -> Option<SubscribeReasonCode> {
        use SubscribeReasonCode as R;
        Some(match s {
            "Success0" => R::Success(QoS::AtMostOnce),
            "Success1" => R::Success(QoS::AtLeastOnce),
            "Success2" => R::Success(QoS::ExactlyOnce),
            "Failure" => R::Failure,
            "Unspecified" => R::Unspecified,
            "ImplementationSpecific" => R::ImplementationSpecific,
            "NotAuthorized" => R::NotAuthorized,
            "TopicFilterInvalid" => R::TopicFilterInvalid,
            "PkidInUse" => R::PkidInUse,
            "QuotaExceeded" => R::QuotaExceeded,
            "SharedSubscriptionsNotSupported" => R::SharedSubscriptionsNotSupported,
            "SubscriptionIdNotSupported" => R::SubscriptionIdNotSupported,
            "WildcardSubscriptionsNotSupported" => R::WildcardSubscriptionsNotSupported,
            _ => return None,
        })
    }

    fn suback_name(c: &SubscribeReasonCode) -> String {
        match c {
            SubscribeReasonCode::Success(q) => format!("Success{}", *q as u8),
            other => format!("{:?}", other),
        }
    }

    pub fn to(u: &UPacket) -> Option<Packet> {
        Some(match u {
            UPacket::Connect { level, keepalive, client_id, clean, props, will, login } => {
                if *level != 5 {
                    return None;
                }
                let c = Connect {
                    keep_alive: *keepalive,
                    client_id: st(client_id)?,
                    clean_start: *clean,
                    properties: to_connect(props)?,
                };
                let w = match will {
                    None => None,
                    Some(w) => Some(LastWill {
                        topic: by(&w.topic),
                        message: by(&w.message),
                        qos: q(w.qos)?,
                        retain: w.retain,
                        properties: to_will(&w.props)?,
                    }),
                };
                let l = match login {
                    None => None,
                    Some(l) => Some(Login { username: st(&l.username)?, password: st(&l.password)? }),
                };
                Packet::Connect(c, w, l)
            }
            UPacket::ConnAck { session_present, code, props } => Packet::ConnAck(ConnAck {
                session_present: *session_present,
                code: connack_code(code)?,
                properties: to_connack(props)?,
            }),
            UPacket::Publish { dup, qos, retain, topic, pkid, payload, props } => Packet::Publish(Publish {
                dup: *dup,
                qos: q(*qos)?,
                retain: *retain,
                topic: by(topic),
                pkid: *pkid,
                payload: by(payload),
                properties: to_publish(props)?,
            }),
            UPacket::Ack { kind, pkid, reason, props } => match kind {
                AckKind::PubAck => Packet::PubAck(PubAck {
                    pkid: *pkid,
                    reason: puback_reason(reason)?,
                    properties: to_puback(props)?,
                }),
                AckKind::PubRec => Packet::PubRec(PubRec {
                    pkid: *pkid,
                    reason: pubrec_reason(reason)?,
                    properties: to_pubrec(props)?,
                }),
                AckKind::PubRel => Packet::PubRel(PubRel {
                    pkid: *pkid,
                    reason: pubrel_reason(reason)?,
                    properties: to_pubrel(props)?,
                }),
                AckKind::PubComp => Packet::PubComp(PubComp {
                    pkid: *pkid,
                    reason: pubcomp_reason(reason)?,
                    properties: to_pubcomp(props)?,
                }),
            },
            UPacket::Subscribe { pkid, props, filters } => {
                let mut fs = Vec::with_capacity(filters.len());
                for f in filters {
                    fs.push(Filter {
                        path: st(&f.path)?,
                        qos: q(f.qos)?,
                        nolocal: f.nolocal,
                        preserve_retain: f.preserve,
                        retain_forward_rule: rule(f.rule)?,
                    });
                }
                Packet::Subscribe(Subscribe { pkid: *pkid, filters: fs, properties: to_subscribe(props)? })
            }
            UPacket::SubAck { pkid, props, codes } => Packet::SubAck(SubAck {
                pkid: *pkid,
                return_codes: codes.iter().map(|c| suback_code(c)).collect::<Option<Vec<_>>>()?,
                properties: to_suback(props)?,
            }),
            UPacket::Unsubscribe { pkid, props, filters } => Packet::Unsubscribe(Unsubscribe {
                pkid: *pkid,
                filters: filters.iter().map(|f| st(f)).collect::<Option<Vec<_>>>()?,
                properties: to_unsubscribe(props)?,
            }),
            UPacket::UnsubAck { pkid, props, reasons } => Packet::UnsubAck(UnsubAck {
                pkid: *pkid,
                reasons: reasons.iter().map(|r| unsuback_reason(r)).collect::<Option<Vec<_>>>()?,
                properties: to_unsuback(props)?,
            }),
            UPacket::PingReq => Packet::PingReq(PingReq),
            UPacket::PingResp => Packet::PingResp(PingResp),
            UPacket::Disconnect { reason, props } => Packet::Disconnect(Disconnect {
                reason_code: disconnect_reason(reason)?,
                properties: to_disconnect(props)?,
            }),
            UPacket::Auth => return None,
        })
    }

    pub fn from(p: &Packet) -> UPacket {
        match p {
            Packet::Auth(_) => UPacket::Auth,
            Packet::Connect(c, w, l) => UPacket::Connect {
                level: 5,
                keepalive: c.keep_alive,
                client_id: c.client_id.as_bytes().to_vec(),
                clean: c.clean_start,
                props: from_connect(&c.properties),
                will: w.as_ref().map(|w| UWill {
                    topic: w.topic.to_vec(),
                    message: w.message.to_vec(),
                    qos: w.qos as u8,
                    retain: w.retain,
                    props: from_will(&w.properties),
                }),
                login: l.as_ref().map(|l| ULogin {
                    username: l.username.as_bytes().to_vec(),
                    password: l.password.as_bytes().to_vec(),
                }),
            },
            Packet::ConnAck(c) => UPacket::ConnAck {
                session_present: c.session_present,
                code: format!("{:?}", c.code),
                props: from_connack(&c.properties),
            },
            Packet::Publish(p) => UPacket::Publish {
                dup: p.dup,
                qos: p.qos as u8,
                retain: p.retain,
                topic: p.topic.to_vec(),
                pkid: p.pkid,
                payload: p.payload.to_vec(),
                props: from_publish(&p.properties),
            },
            Packet::PubAck(a) => UPacket::Ack {
                kind: AckKind::PubAck,
                pkid: a.pkid,
                reason: format!("{:?}", a.reason),
                props: from_puback(&a.properties),
            },
            Packet::PubRec(a) => UPacket::Ack {
                kind: AckKind::PubRec,
                pkid: a.pkid,
                reason: format!("{:?}", a.reason),
                props: from_pubrec(&a.properties),
            },
            Packet::PubRel(a) => UPacket::Ack {
                kind: AckKind::PubRel,
                pkid: a.pkid,
                reason: format!("{:?}", a.reason),
                props: from_pubrel(&a.properties),
            },
            Packet::PubComp(a) => UPacket::Ack {
                kind: AckKind::PubComp,
                pkid: a.pkid,
                reason: format!("{:?}", a.reason),
                props: from_pubcomp(&a.properties),
            },
            Packet::Subscribe(s) => UPacket::Subscribe {
                pkid: s.pkid,
                props: from_subscribe(&s.properties),
                filters: s
                    .filters
                    .iter()
                    .map(|f| UFilter {
                        path: f.path.as_bytes().to_vec(),
                        qos: f.qos as u8,
                        nolocal: f.nolocal,
                        preserve: f.preserve_retain,
                        rule: rule_n(&f.retain_forward_rule),
                    })
                    .collect(),
            },
            Packet::SubAck(s) => UPacket::SubAck {
                pkid: s.pkid,
                props: from_suback(&s.properties),
                codes: s.return_codes.iter().map(suback_name).collect(),
            },
            Packet::Unsubscribe(u) => UPacket::Unsubscribe {
                pkid: u.pkid,
                props: from_unsubscribe(&u.properties),
                filters: u.filters.iter().map(|t| t.as_bytes().to_vec()).collect(),
            },
            Packet::UnsubAck(u) => UPacket::UnsubAck {
                pkid: u.pkid,
                props: from_unsuback(&u.properties),
                reasons: u.reasons.iter().map(|r| format!("{:?}", r)).collect(),
            },
            Packet::PingReq(_) => UPacket::PingReq,
            Packet::PingResp(_) => UPacket::PingResp,
            Packet::Disconnect(d) => UPacket::Disconnect {
                reason: format!("{:?}", d.reason_code),
                props: from_disconnect(&d.properties),
            },
        }
    }
}

// ------------------------------------------------------------------------------------------
// b4 / b5: rumqttd::protocol (shared Packet enum)
// ------------------------------------------------------------------------------------------
pub mod kb {
    use super::*;
    use rumqttd::protocol::*;
    qos_fns!();
    rule_fns!();
    all_props!();
    v5_names!();
    names!(CONNACK, connack_code, ConnectReturnCode, [Success, RefusedProtocolVersion,
        ServiceUnavailable, UnspecifiedError, MalformedPacket, ProtocolError,
        ImplementationSpecificError, UnsupportedProtocolVersion, ClientIdentifierNotValid,
        BadUserNamePassword, NotAuthorized, ServerUnavailable, ServerBusy, Banned,
        BadAuthenticationMethod, TopicNameInvalid, PacketTooLarge, QuotaExceeded,
        PayloadFormatInvalid, RetainNotSupported, QoSNotSupported, UseAnotherServer, ServerMoved,
        ConnectionRateExceeded]);
    pub const SUBACK: &[&str] = &[
        "Success0", "Success1", "Success2", "Failure", "QoS0", "QoS1", "QoS2", "Unspecified",
        "ImplementationSpecific", "NotAuthorized", "TopicFilterInvalid", "PkidInUse", "QuotaExceeded",
        "SharedSubscriptionsNotSupported", "SubscriptionIdNotSupported",
        "WildcardSubscriptionsNotSupported",
    ];

    fn suback_code(s: &str) -> Option<SubscribeReasonCode> {
        use SubscribeReasonCode as R;
        Some(match s {
            "Success0" => R::Success(QoS::AtMostOnce),
            "Success1" => R::Success(QoS::AtLeastOnce),
            "Success2" => R::Success(QoS::ExactlyOnce),
            "Failure" => R::Failure,
            "QoS0" => R::QoS0,
            "QoS1" => R::QoS1,
            "QoS2" => R::QoS2,
            "Unspecified" => R::Unspecified,
            "ImplementationSpecific" => R::ImplementationSpecific,
            "NotAuthorized" => R::NotAuthorized,
            "TopicFilterInvalid" => R::TopicFilterInvalid,
            "PkidInUse" => R::PkidInUse,
            "QuotaExceeded" => R::QuotaExceeded,
            "SharedSubscriptionsNotSupported" => R::SharedSubscriptionsNotSupported,
            "SubscriptionIdNotSupported" => R::SubscriptionIdNotSupported,
            "WildcardSubscriptionsNotSupported" => R::WildcardSubscriptionsNotSupported,
            _ => return None,
        })
    }

    fn suback_name(c: &SubscribeReasonCode) -> String {
        match c {
            SubscribeReasonCode::Success(q) => format!("Success{}", *q as u8),
            other => format!("{:?}", other),
        }
    }

    /// `Publish` has pub(crate) dup/qos/pkid: build it through the pub `deserialize`
    fn mk_publish(dup: bool, qos: u8, retain: bool, topic: &[u8], pkid: u16, payload: &[u8]) -> Option<Publish> {
        if topic.len() > 65535 || qos > 2 {
            return None;
        }
        let mut v = Vec::with_capacity(5 + topic.len() + payload.len());
        v.push(0x30 | (retain as u8) | (qos << 1) | ((dup as u8) << 3));
        v.extend_from_slice(&pkid.to_be_bytes());
        v.extend_from_slice(&(topic.len() as u16).to_be_bytes());
        v.extend_from_slice(topic);
        v.extend_from_slice(payload);
        Some(Publish::deserialize(Bytes::from(v)))
    }

    /// (dup, qos, pkid) read back through the pub `serialize` (topic/payload/retain are pub fields;
    /// they are blanked in a clone first so that the big payload is not copied)
    fn publish_hidden(p: &Publish) -> (bool, u8, u16) {
        let mut c = p.clone();
        c.topic = Bytes::new();
        c.payload = Bytes::new();
        let s = c.serialize();
        ((s[0] & 8) != 0, (s[0] >> 1) & 3, u16::from_be_bytes([s[1], s[2]]))
    }

    pub fn to(u: &UPacket, lvl: u8) -> Option<Packet> {
        Some(match u {
            UPacket::Connect { level, keepalive, client_id, clean, props, will, login } => {
                if *level != lvl {
                    return None;
                }
                let c = Connect { keep_alive: *keepalive, client_id: st(client_id)?, clean_session: *clean };
                let (w, wp) = match will {
                    None => (None, None),
                    Some(w) => (
                        Some(LastWill { topic: by(&w.topic), message: by(&w.message), qos: q(w.qos)?, retain: w.retain }),
                        to_will(&w.props)?,
                    ),
                };
                let l = match login {
                    None => None,
                    Some(l) => Some(Login { username: st(&l.username)?, password: st(&l.password)? }),
                };
                Packet::Connect(c, to_connect(props)?, w, wp, l)
            }
            UPacket::ConnAck { session_present, code, props } => Packet::ConnAck(
                ConnAck { session_present: *session_present, code: connack_code(code)? },
                to_connack(props)?,
            ),
            UPacket::Publish { dup, qos, retain, topic, pkid, payload, props } => {
                Packet::Publish(mk_publish(*dup, *qos, *retain, topic, *pkid, payload)?, to_publish(props)?)
            }
            UPacket::Ack { kind, pkid, reason, props } => match kind {
                AckKind::PubAck => {
                    Packet::PubAck(PubAck { pkid: *pkid, reason: puback_reason(reason)? }, to_puback(props)?)
                }
                AckKind::PubRec => {
                    Packet::PubRec(PubRec { pkid: *pkid, reason: pubrec_reason(reason)? }, to_pubrec(props)?)
                }
                AckKind::PubRel => {
                    Packet::PubRel(PubRel { pkid: *pkid, reason: pubrel_reason(reason)? }, to_pubrel(props)?)
                }
                AckKind::PubComp => {
                    Packet::PubComp(PubComp { pkid: *pkid, reason: pubcomp_reason(reason)? }, to_pubcomp(props)?)
                }
            },
            UPacket::Subscribe { pkid, props, filters } => {
                let mut fs = Vec::with_capacity(filters.len());
                for f in filters {
                    fs.push(Filter {
                        path: st(&f.path)?,
                        qos: q(f.qos)?,
                        nolocal: f.nolocal,
                        preserve_retain: f.preserve,
                        retain_forward_rule: rule(f.rule)?,
                    });
                }
                Packet::Subscribe(Subscribe { pkid: *pkid, filters: fs }, to_subscribe(props)?)
            }
            UPacket::SubAck { pkid, props, codes } => Packet::SubAck(
                SubAck {
                    pkid: *pkid,
                    return_codes: codes.iter().map(|c| suback_code(c)).collect::<Option<Vec<_>>>()?,
                },
                to_suback(props)?,
            ),
            UPacket::Unsubscribe { pkid, props, filters } => Packet::Unsubscribe(
                Unsubscribe { pkid: *pkid, filters: filters.iter().map(|f| st(f)).collect::<Option<Vec<_>>>()? },
                to_unsubscribe(props)?,
            ),
            UPacket::UnsubAck { pkid, props, reasons } => Packet::UnsubAck(
                UnsubAck {
                    pkid: *pkid,
                    reasons: reasons.iter().map(|r| unsuback_reason(r)).collect::<Option<Vec<_>>>()?,
                },
                to_unsuback(props)?,
            ),
            UPacket::PingReq => Packet::PingReq(PingReq),
            UPacket::PingResp => Packet::PingResp(PingResp),
            UPacket::Disconnect { reason, props } => {
                Packet::Disconnect(Disconnect { reason_code: disconnect_reason(reason)? }, to_disconnect(props)?)
            }
            UPacket::Auth => return None,
        })
    }

    pub fn from(p: &Packet, lvl: u8) -> UPacket {
        match p {
            Packet::Connect(c, cp, w, wp, l) => UPacket::Connect {
                level: lvl,
                keepalive: c.keep_alive,
                client_id: c.client_id.as_bytes().to_vec(),
                clean: c.clean_session,
                props: from_connect(cp),
                will: w.as_ref().map(|w| UWill {
                    topic: w.topic.to_vec(),
                    message: w.message.to_vec(),
                    qos: w.qos as u8,
                    retain: w.retain,
                    props: from_will(wp),
                }),
                login: l.as_ref().map(|l| ULogin {
                    username: l.username.as_bytes().to_vec(),
                    password: l.password.as_bytes().to_vec(),
                }),
            },
            Packet::ConnAck(c, cp) => UPacket::ConnAck {
                session_present: c.session_present,
                code: format!("{:?}", c.code),
                props: from_connack(cp),
            },
            Packet::Publish(p, pp) => {
                let (dup, qos, pkid) = publish_hidden(p);
                UPacket::Publish {
                    dup,
                    qos,
                    retain: p.retain,
                    topic: p.topic.to_vec(),
                    pkid,
                    payload: p.payload.to_vec(),
                    props: from_publish(pp),
                }
            }
            Packet::PubAck(a, ap) => UPacket::Ack {
                kind: AckKind::PubAck,
                pkid: a.pkid,
                reason: format!("{:?}", a.reason),
                props: from_puback(ap),
            },
            Packet::PubRec(a, ap) => UPacket::Ack {
                kind: AckKind::PubRec,
                pkid: a.pkid,
                reason: format!("{:?}", a.reason),
                props: from_pubrec(ap),
            },
            Packet::PubRel(a, ap) => UPacket::Ack {
                kind: AckKind::PubRel,
                pkid: a.pkid,
                reason: format!("{:?}", a.reason),
                props: from_pubrel(ap),
            },
            Packet::PubComp(a, ap) => UPacket::Ack {
                kind: AckKind::PubComp,
                pkid: a.pkid,
                reason: format!("{:?}", a.reason),
                props: from_pubcomp(ap),
            },
            Packet::Subscribe(s, sp) => UPacket::Subscribe {
                pkid: s.pkid,
                props: from_subscribe(sp),
                filters: s
                    .filters
                    .iter()
                    .map(|f| UFilter {
                        path: f.path.as_bytes().to_vec(),
                        qos: f.qos as u8,
                        nolocal: f.nolocal,
                        preserve: f.preserve_retain,
                        rule: rule_n(&f.retain_forward_rule),
                    })
                    .collect(),
            },
            Packet::SubAck(s, sp) => UPacket::SubAck {
                pkid: s.pkid,
                props: from_suback(sp),
                codes: s.return_codes.iter().map(suback_name).collect(),
            },
            Packet::Unsubscribe(u, up) => UPacket::Unsubscribe {
                pkid: u.pkid,
                props: from_unsubscribe(up),
                filters: u.filters.iter().map(|t| t.as_bytes().to_vec()).collect(),
            },
            Packet::UnsubAck(u, up) => UPacket::UnsubAck {
                pkid: u.pkid,
                props: from_unsuback(up),
                reasons: u.reasons.iter().map(|r| format!("{:?}", r)).collect(),
            },
            Packet::PingReq(_) => UPacket::PingReq,
            Packet::PingResp(_) => UPacket::PingResp,
            Packet::Disconnect(d, dp) => UPacket::Disconnect {
                reason: format!("{:?}", d.reason_code),
                props: from_disconnect(dp),
            },
        }
    }
}

// ------------------------------------------------------------------------------------------
// the four copies: encode / size / decode under catch_unwind
// ------------------------------------------------------------------------------------------
#[derive(Clone, Copy, PartialEq, Eq, Debug)]
pub enum Cp {
    C4,
    B4,
    C5,
    B5,
}

const COPIES: [Cp; 4] = [Cp::C4, Cp::B4, Cp::C5, Cp::B5];
const READ_MAX: usize = 1 << 30;

impl Cp {
    fn tag(self) -> &'static str {
        match self {
            Cp::C4 => "c4",
            Cp::B4 => "b4",
            Cp::C5 => "c5",
            Cp::B5 => "b5",
        }
    }
    fn parse(s: &str) -> Option<Cp> {
        Some(match s {
            "c4" => Cp::C4,
            "b4" => Cp::B4,
            "c5" => Cp::C5,
            "b5" => Cp::B5,
            _ => return None,
        })
    }
    fn v5(self) -> bool {
        matches!(self, Cp::C5 | Cp::B5)
    }
    fn other(self) -> Cp {
        match self {
            Cp::C4 => Cp::B4,
            Cp::B4 => Cp::C4,
            Cp::C5 => Cp::B5,
            Cp::B5 => Cp::C5,
        }
    }
}

pub enum Real {
    C4(rumqttc::mqttbytes::v4::Packet),
    C5(rumqttc::v5::mqttbytes::v5::Packet),
    B4(rumqttd::protocol::Packet),
    B5(rumqttd::protocol::Packet),
}

pub fn to_real(cp: Cp, u: &UPacket) -> Option<Real> {
    Some(match cp {
        Cp::C4 => Real::C4(k4::to(u)?),
        Cp::C5 => Real::C5(k5::to(u)?),
        Cp::B4 => Real::B4(kb::to(u, 4)?),
        Cp::B5 => Real::B5(kb::to(u, 5)?),
    })
}

enum Enc {
    W(usize, BytesMut),
    E,
    P,
}

/// the same value written behind what a connection's write buffer may already hold (replies are
/// written in bulk: `readb` / `RemoteLink` append packet after packet): '=' the appended bytes and the
/// returned count equal the write into an empty buffer and the prefix is untouched, '!' otherwise,
/// 'E' Err, 'P' panic
fn encode_appended(real: &Real, alone: &BytesMut, n_alone: usize) -> char {
    const PREFIX: [u8; 4] = [0xC0, 0x00, 0xD0, 0x00];
    let r = catch_unwind(AssertUnwindSafe(|| {
        let mut b = BytesMut::new();
        b.extend_from_slice(&PREFIX);
        let n = match real {
            Real::C4(p) => p.write(&mut b, usize::MAX).ok(),
            Real::C5(p) => p.write(&mut b, None).ok(),
            Real::B4(p) => rumqttd::protocol::v4::V4.write(p.clone(), &mut b).ok(),
            Real::B5(p) => rumqttd::protocol::v5::V5.write(p.clone(), &mut b).ok(),
        };
        n.map(|n| (n, b))
    }));
    match r {
        Err(_) => 'P',
        Ok(None) => 'E',
        Ok(Some((n, b))) => {
            if n == n_alone && b.len() >= 4 && b[..4] == PREFIX && b[4..] == alone[..] {
                '='
            } else {
                '!'
            }
        }
    }
}

fn encode(real: &Real) -> Enc {
    let r = catch_unwind(AssertUnwindSafe(|| {
        let mut b = BytesMut::new();
        let n = match real {
            Real::C4(p) => p.write(&mut b, usize::MAX).ok(),
            Real::C5(p) => p.write(&mut b, None).ok(),
            Real::B4(p) => rumqttd::protocol::v4::V4.write(p.clone(), &mut b).ok(),
            Real::B5(p) => rumqttd::protocol::v5::V5.write(p.clone(), &mut b).ok(),
        };
        n.map(|n| (n, b))
    }));
    match r {
        Err(_) => Enc::P,
        Ok(None) => Enc::E,
        Ok(Some((n, b))) => Enc::W(n, b),
    }
}

/// None = broker copy (no size fn); Some(None) = panic
fn size_of(real: &Real) -> Option<Option<usize>> {
    match real {
        Real::C4(p) => Some(catch_unwind(AssertUnwindSafe(|| p.size())).ok()),
        Real::C5(p) => Some(catch_unwind(AssertUnwindSafe(|| p.size())).ok()),
        _ => None,
    }
}

enum Dec {
    Ok(usize, UPacket),
    Err,
    Panic,
}

fn decode(cp: Cp, stream: &[u8]) -> Dec {
    let mut b = BytesMut::from(stream);
    let total = b.len();
    let r = catch_unwind(AssertUnwindSafe(|| match cp {
        Cp::C4 => rumqttc::mqttbytes::v4::Packet::read(&mut b, READ_MAX).ok().map(|p| k4::from(&p)),
        Cp::C5 => rumqttc::v5::mqttbytes::v5::Packet::read(&mut b, None).ok().map(|p| k5::from(&p)),
        Cp::B4 => rumqttd::protocol::v4::V4.read_mut(&mut b, READ_MAX).ok().map(|p| kb::from(&p, 4)),
        Cp::B5 => rumqttd::protocol::v5::V5.read_mut(&mut b, READ_MAX).ok().map(|p| kb::from(&p, 5)),
    }));
    match r {
        Err(_) => Dec::Panic,
        Ok(None) => Dec::Err,
        Ok(Some(u)) => Dec::Ok(total.saturating_sub(b.len()), u),
    }
}

/// remaining length announced by the fixed header of a frame
fn frame_rl(b: &[u8]) -> Option<usize> {
    let mut n = 0usize;
    for i in 0..4 {
        let x = *b.get(1 + i)? as usize;
        n |= (x & 0x7f) << (7 * i);
        if x & 0x80 == 0 {
            return Some(n);
        }
    }
    None
}

/// what happened, for the statistics
pub struct Meta {
    /// 'U' unrepresentable, 'W', 'E', 'P'
    pub enc: char,
    pub rl: Option<usize>,
    /// '=' equal, 'M' decoded but different, 'E', 'P', '-' not attempted
    pub slf: char,
    pub cross: char,
    pub panics: u64,
}

fn put_dec(o: &mut String, tag: char, d: &Dec, u: &UPacket) -> char {
    o.push(tag);
    match d {
        Dec::Err => {
            o.push('E');
            'E'
        }
        Dec::Panic => {
            o.push('P');
            'P'
        }
        Dec::Ok(n, v) => {
            let _ = write!(o, "{} ", n);
            if v == u {
                o.push('=');
                '='
            } else {
                ctf_into(o, v);
                'M'
            }
        }
    }
}

/// appends `<enc>|<size>|<self>|<cross>` to `o`
pub fn run_real(cp: Cp, u: &UPacket, real: &Real, o: &mut String) -> Meta {
    let mut m = Meta { enc: 'E', rl: None, slf: '-', cross: '-', panics: 0 };
    let size = size_of(real);
    let enc = encode(real);
    let mut stream: Option<Vec<u8>> = None;
    let mut appended = '-';
    match &enc {
        Enc::W(n, b) => {
            appended = encode_appended(real, b, *n);
            m.enc = 'W';
            m.rl = frame_rl(b);
            let _ = write!(o, "W{}:", n);
            hex_into(o, b);
            let mut s = Vec::with_capacity(b.len() + 2);
            s.extend_from_slice(b);
            s.extend_from_slice(&[0xC0, 0x00]);
            stream = Some(s);
        }
        Enc::E => o.push('E'),
        Enc::P => {
            m.enc = 'P';
            m.panics += 1;
            o.push('P');
        }
    }
    drop(enc);
    match size {
        None => o.push_str("|Z-"),
        Some(None) => {
            m.panics += 1;
            o.push_str("|ZP");
        }
        Some(Some(n)) => {
            let _ = write!(o, "|Z{}", n);
        }
    }
    match stream {
        None => o.push_str("|D-|X-"),
        Some(s) => {
            o.push('|');
            m.slf = put_dec(o, 'D', &decode(cp, &s), u);
            o.push('|');
            m.cross = put_dec(o, 'X', &decode(cp.other(), &s), u);
            m.panics += (m.slf == 'P') as u64 + (m.cross == 'P') as u64;
        }
    }
    o.push_str("|A");
    o.push(appended);
    m
}

/// op kind (1): returns the output text and the meta data
pub fn exec_packet(cp: Cp, u: &UPacket, o: &mut String) -> Meta {
    match to_real(cp, u) {
        None => {
            o.push('U');
            Meta { enc: 'U', rl: None, slf: '-', cross: '-', panics: 0 }
        }
        Some(real) => run_real(cp, u, &real, o),
    }
}

/// op kind (2)
pub fn exec_dec(cp: Cp, bytes: &[u8], o: &mut String) -> char {
    let mut s = Vec::with_capacity(bytes.len() + 2);
    s.extend_from_slice(bytes);
    s.extend_from_slice(&[0xC0, 0x00]);
    match decode(cp, &s) {
        Dec::Err => {
            o.push_str("DE");
            'E'
        }
        Dec::Panic => {
            o.push_str("DP");
            'P'
        }
        Dec::Ok(n, v) => {
            let _ = write!(o, "D{} ", n);
            ctf_into(o, &v);
            'M'
        }
    }
}

pub fn exec(op: &str) -> String {
    let t: Vec<&str> = op.split(' ').filter(|s| !s.is_empty()).collect();
    let mut o = String::new();
    if t.is_empty() {
        panic!("empty op");
    }
    if t[0] == "dec" {
        let cp = Cp::parse(t.get(1).copied().unwrap_or("")).unwrap_or_else(|| panic!("bad copy in {op}"));
        let bytes = unhex_strict(t.get(2).copied().unwrap_or("")).unwrap_or_else(|| panic!("bad hex in {op}"));
        exec_dec(cp, &bytes, &mut o);
        return o;
    }
    let cp = Cp::parse(t[0]).unwrap_or_else(|| panic!("bad op {}", &op[..op.len().min(80)]));
    let u = parse_ctf(&t[1..]).unwrap_or_else(|| panic!("bad packet text {}", &op[..op.len().min(200)]));
    exec_packet(cp, &u, &mut o);
    o
}

// ------------------------------------------------------------------------------------------
// generator
// ------------------------------------------------------------------------------------------
#[derive(Clone, Copy)]
enum PK {
    B,
    W,
    D,
    S,
    X,
    UP,
    VV,
    OV,
}

type PTable = &'static [(u8, PK)];
const P_CONNECT: PTable = &[
    (17, PK::D), (33, PK::W), (39, PK::D), (34, PK::W), (25, PK::B), (23, PK::B), (38, PK::UP),
    (21, PK::S), (22, PK::X),
];
const P_WILL: PTable =
    &[(24, PK::D), (1, PK::B), (2, PK::D), (3, PK::S), (8, PK::S), (9, PK::X), (38, PK::UP)];
const P_CONNACK: PTable = &[
    (17, PK::D), (33, PK::W), (36, PK::B), (37, PK::B), (39, PK::D), (18, PK::S), (34, PK::W),
    (31, PK::S), (38, PK::UP), (40, PK::B), (41, PK::B), (42, PK::B), (19, PK::W), (26, PK::S),
    (28, PK::S), (21, PK::S), (22, PK::X),
];
const P_PUBLISH: PTable = &[
    (1, PK::B), (2, PK::D), (35, PK::W), (8, PK::S), (9, PK::X), (38, PK::UP), (11, PK::VV), (3, PK::S),
];
const P_ACK: PTable = &[(31, PK::S), (38, PK::UP)];
const P_SUBSCRIBE: PTable = &[(11, PK::OV), (38, PK::UP)];
const P_UNSUBSCRIBE: PTable = &[(38, PK::UP)];
const P_DISCONNECT: PTable = &[(17, PK::D), (31, PK::S), (38, PK::UP), (28, PK::S)];

const ALPHA: &[u8] = b"abcdefghijklmnopqrstuvwxyzABCDEFGHIJKLMNOPQRSTUVWXYZ0123456789////////";
const SUBIDS: [usize; 8] = [1, 127, 128, 16383, 16384, 2097151, 2097152, 268435455];
const PAY_EXACT: [usize; 9] = [0, 1, 100, 127, 128, 129, 16383, 16384, 16385];
const RL_TARGETS: [usize; 4] = [127, 128, 16383, 16384];
const RL_BOUNDARIES: [usize; 6] = [127, 128, 16383, 16384, 2097151, 2097152];
const NKINDS: usize = 14;

fn connack_names(cp: Cp) -> &'static [&'static str] {
    match cp {
        Cp::C4 => k4::CONNACK,
        Cp::C5 => k5::CONNACK,
        _ => kb::CONNACK,
    }
}

fn suback_names(cp: Cp) -> &'static [&'static str] {
    match cp {
        Cp::C4 => k4::SUBACK,
        Cp::C5 => k5::SUBACK,
        _ => kb::SUBACK,
    }
}

fn ack_names(cp: Cp, k: AckKind) -> &'static [&'static str] {
    match (cp, k) {
        (Cp::C4, _) => &[SUCCESS],
        (Cp::C5, AckKind::PubAck) => k5::PUBACK,
        (Cp::C5, AckKind::PubRec) => k5::PUBREC,
        (Cp::C5, AckKind::PubRel) => k5::PUBREL,
        (Cp::C5, AckKind::PubComp) => k5::PUBCOMP,
        (_, AckKind::PubAck) => kb::PUBACK,
        (_, AckKind::PubRec) => kb::PUBREC,
        (_, AckKind::PubRel) => kb::PUBREL,
        (_, AckKind::PubComp) => kb::PUBCOMP,
    }
}

struct Gen {
    r: Rng,
    long_den: u64,
}

impl Gen {
    fn bit(&mut self) -> bool {
        self.r.next() & 1 == 1
    }

    fn bytes(&mut self, n: usize) -> Vec<u8> {
        let mut v = Vec::with_capacity(n + 8);
        while v.len() < n {
            v.extend_from_slice(&self.r.next().to_le_bytes());
        }
        v.truncate(n);
        v
    }

    fn pkid(&mut self) -> u16 {
        match self.r.below(10) {
            0 => 1,
            1 => 2,
            2 => 255,
            3 => 256,
            4 => 65535,
            _ => self.r.range(1, 65535) as u16,
        }
    }

    /// length class of a string. Over-long (65536..65540, outside well-formed) one time in
    /// `long_den` (quick: 2000; thorough: 20000 to keep the output volume sane), exactly 65535
    /// half as often.
    fn strlen(&mut self) -> usize {
        if self.r.below(self.long_den) == 0 {
            return 65536 + self.r.below(5) as usize;
        }
        if self.r.below(self.long_den * 2) == 0 {
            return 65535;
        }
        match self.r.below(1000) {
            0..=39 => 0,
            40..=99 => 1,
            100..=159 => 2,
            160..=189 => 127,
            190..=219 => 128,
            _ => self.r.range(3, 40) as usize,
        }
    }

    fn text(&mut self, len: usize) -> Vec<u8> {
        let mut v = Vec::with_capacity(len);
        if len == 0 {
            return v;
        }
        if self.r.below(8) == 0 {
            let ch: &[u8] = match self.r.below(3) {
                0 => "é".as_bytes(),
                1 => "€".as_bytes(),
                _ => "😀".as_bytes(),
            };
            while v.len() + ch.len() <= len {
                v.extend_from_slice(ch);
            }
            while v.len() < len {
                v.push(b'a');
            }
        } else {
            let mut x = 0u64;
            for i in 0..len {
                if i % 8 == 0 {
                    x = self.r.next();
                }
                v.push(ALPHA[(x & 0xff) as usize % ALPHA.len()]);
                x >>= 8;
            }
        }
        v
    }

    fn string(&mut self) -> Vec<u8> {
        let n = self.strlen();
        self.text(n)
    }

    /// topic for a Bytes-typed field when `raw_ok`: 1 in 50 invalid UTF-8
    fn topic(&mut self, raw_ok: bool) -> Vec<u8> {
        if raw_ok && self.r.below(50) == 0 {
            let mut v = vec![0xff, 0xfe];
            let n = self.r.below(12) as usize;
            v.extend_from_slice(&self.text(n));
            return v;
        }
        self.string()
    }

    fn filter_path(&mut self) -> Vec<u8> {
        let mut v = self.string();
        let n = v.len();
        if n >= 3 && n < 1000 && v.is_ascii() {
            match self.r.below(8) {
                0 => {
                    v[n - 2] = b'/';
                    v[n - 1] = b'#';
                }
                1 => {
                    v[0] = b'+';
                    v[1] = b'/';
                }
                _ => {}
            }
        }
        v
    }

    fn subid(&mut self) -> usize {
        if self.bit() {
            *self.r.pick(&SUBIDS)
        } else {
            self.r.range(1, 268435455) as usize
        }
    }

    fn val(&mut self, k: PK) -> UVal {
        match k {
            PK::B => UVal::B(match self.r.below(5) {
                0 => 0,
                1 => 1,
                2 => 2,
                3 => 255,
                _ => self.r.below(256) as u8,
            }),
            PK::W => UVal::W(match self.r.below(6) {
                0 => 0,
                1 => 1,
                2 => 255,
                3 => 256,
                4 => 65535,
                _ => self.r.below(65536) as u16,
            }),
            PK::D => UVal::D(match self.r.below(6) {
                0 => 0,
                1 => 1,
                2 => 65535,
                3 => 65536,
                4 => u32::MAX,
                _ => self.r.next() as u32,
            }),
            PK::S => UVal::S(self.string()),
            PK::X => {
                let n = self.r.below(20) as usize;
                UVal::X(self.bytes(n))
            }
            PK::UP => UVal::P(self.string(), self.string()),
            PK::VV | PK::OV => UVal::V(self.subid()),
        }
    }

    /// a non-empty item list in field order; every optional field present with probability 1/2
    fn items(&mut self, table: PTable) -> Vec<UProp> {
        let mut v = Vec::new();
        for &(id, k) in table {
            match k {
                PK::UP | PK::VV => {
                    for _ in 0..self.r.below(4) {
                        let val = self.val(k);
                        v.push(UProp { id, val });
                    }
                }
                _ => {
                    if self.bit() {
                        let val = self.val(k);
                        v.push(UProp { id, val });
                    }
                }
            }
        }
        if v.is_empty() {
            let val = self.val(PK::UP);
            v.push(UProp { id: 38, val });
        }
        v
    }

    /// `empty`: the deliberate Some(all empty) deviation (v5 copies only);
    /// `b4_den`: b4 gets Some(..) one time in b4_den (hits the unreachable! of V4::write)
    fn props(&mut self, cp: Cp, table: PTable, empty: bool, b4_den: u64) -> UProps {
        match cp {
            Cp::C4 => None,
            Cp::B4 => {
                if self.r.below(b4_den) == 0 {
                    Some(self.items(table))
                } else {
                    None
                }
            }
            _ => {
                if empty {
                    Some(vec![])
                } else if self.r.below(4) == 0 {
                    None
                } else {
                    Some(self.items(table))
                }
            }
        }
    }

    fn name(&mut self, list: &[&str]) -> String {
        (*self.r.pick(list)).to_string()
    }

    fn count14(&mut self, zero: bool) -> usize {
        if zero {
            0
        } else {
            self.r.range(1, 4) as usize
        }
    }

    /// one packet for `cp` of kind index `kind`; `out` = deliberately just outside the
    /// well-formed region. Second component: requested remaining length (publish only; the payload
    /// is then still empty and is fitted by the caller).
    fn gen_one(&mut self, cp: Cp, kind: usize, out: bool) -> (UPacket, Option<usize>) {
        let v5 = cp.v5();
        let dev = if out { 1 + self.r.below(4) } else { 0 };
        let b4 = cp == Cp::B4;
        let u = match kind {
            0 => {
                let level = match cp {
                    Cp::C4 => {
                        if self.r.below(10) == 0 {
                            5
                        } else {
                            4
                        }
                    }
                    Cp::B4 => 4,
                    _ => 5,
                };
                // dev 4: mostly the empty-login deviation, one time in 20 an over-long client id
                let long_id = dev == 4 && self.r.below(20) == 0;
                let client_id = if long_id {
                    let n = 65536 + self.r.below(5) as usize;
                    self.text(n)
                } else {
                    self.string()
                };
                let props = self.props(cp, P_CONNECT, v5 && dev == 2, 600);
                let will = if self.bit() {
                    Some(UWill {
                        topic: self.topic(cp != Cp::C4),
                        message: {
                            let n = self.r.below(40) as usize;
                            self.bytes(n)
                        },
                        qos: self.r.below(3) as u8,
                        retain: self.bit(),
                        props: self.props(cp, P_WILL, v5 && dev == 3, 600),
                    })
                } else {
                    None
                };
                let login = if dev == 1 || (dev == 4 && !long_id) || (!v5 && (dev == 2 || dev == 3)) {
                    Some(ULogin { username: vec![], password: vec![] })
                } else if self.bit() {
                    let mut l = ULogin { username: self.string(), password: self.string() };
                    // one of the two empty sometimes; never both (that is the deviation above)
                    match self.r.below(8) {
                        0 => l.username.clear(),
                        1 => l.password.clear(),
                        _ => {}
                    }
                    if l.username.is_empty() && l.password.is_empty() {
                        l.username = b"u".to_vec();
                    }
                    Some(l)
                } else {
                    None
                };
                UPacket::Connect {
                    level,
                    keepalive: match self.r.below(4) {
                        0 => 0,
                        1 => 60,
                        2 => 65535,
                        _ => self.r.below(65536) as u16,
                    },
                    client_id,
                    clean: self.bit(),
                    props,
                    will,
                    login,
                }
            }
            1 => UPacket::ConnAck {
                session_present: self.bit(),
                code: self.name(connack_names(cp)),
                props: self.props(cp, P_CONNACK, v5 && dev != 0, 4),
            },
            2 => {
                let dup = self.bit();
                let qos = self.r.below(3) as u8;
                let retain = self.bit();
                let mut pkid = if qos == 0 { 0 } else { self.pkid() };
                let mut empty = false;
                let mut topic = self.topic(cp != Cp::C4);
                match dev {
                    0 => {}
                    3 if v5 => empty = true,
                    4 if !matches!(cp, Cp::B4 | Cp::B5) && self.r.below(20) == 0 => {
                        let n = 65536 + self.r.below(5) as usize;
                        topic = self.text(n);
                    }
                    _ => pkid = if qos == 0 { self.pkid() } else { 0 },
                }
                let props = self.props(cp, P_PUBLISH, empty, 300);
                let plan = self.r.below(100);
                let (payload, target) = if plan < 70 {
                    let n = self.r.below(65) as usize;
                    (self.bytes(n), None)
                } else if plan < 82 {
                    let n = *self.r.pick(&PAY_EXACT);
                    (self.bytes(n), None)
                } else {
                    (vec![], Some(*self.r.pick(&RL_TARGETS)))
                };
                return (UPacket::Publish { dup, qos, retain, topic, pkid, payload, props }, target);
            }
            3..=6 => {
                let k = [AckKind::PubAck, AckKind::PubRec, AckKind::PubRel, AckKind::PubComp][kind - 3];
                let zero = dev == 1 || dev == 2 || (dev != 0 && !v5);
                UPacket::Ack {
                    kind: k,
                    pkid: if zero { 0 } else { self.pkid() },
                    reason: self.name(ack_names(cp, k)),
                    props: self.props(cp, P_ACK, v5 && dev >= 3, 300),
                }
            }
            7 => {
                let nofilters = dev == 1 || dev == 4 || (dev == 3 && cp == Cp::C4);
                let n = self.count14(nofilters);
                let opts = v5 || (b4 && dev == 3);
                let mut filters = Vec::with_capacity(n);
                for _ in 0..n {
                    filters.push(UFilter {
                        path: self.filter_path(),
                        qos: self.r.below(3) as u8,
                        nolocal: opts && self.bit(),
                        preserve: opts && self.bit(),
                        rule: if opts { self.r.below(3) as u8 } else { 0 },
                    });
                }
                UPacket::Subscribe {
                    pkid: if dev == 2 { 0 } else { self.pkid() },
                    props: self.props(cp, P_SUBSCRIBE, v5 && dev == 3, 300),
                    filters,
                }
            }
            8 => {
                let n = self.count14(dev == 1 || dev == 4 || (dev == 3 && !v5));
                let list = suback_names(cp);
                UPacket::SubAck {
                    pkid: if dev == 2 { 0 } else { self.pkid() },
                    props: self.props(cp, P_ACK, v5 && dev == 3, 300),
                    codes: (0..n).map(|_| self.name(list)).collect(),
                }
            }
            9 => {
                let n = if self.r.below(8) == 0 { 0 } else { self.r.range(1, 4) as usize };
                UPacket::Unsubscribe {
                    pkid: if dev != 0 && !(v5 && dev == 3) { 0 } else { self.pkid() },
                    props: self.props(cp, P_UNSUBSCRIBE, v5 && dev == 3, 300),
                    filters: (0..n).map(|_| self.filter_path()).collect(),
                }
            }
            10 => {
                let n = match cp {
                    Cp::C4 => 0,
                    Cp::B4 => {
                        if dev == 1 {
                            self.r.range(1, 4) as usize
                        } else {
                            0
                        }
                    }
                    _ => self.count14(dev == 1),
                };
                let list = if cp == Cp::C5 { k5::UNSUBACK } else { kb::UNSUBACK };
                let zero = dev == 2 || dev == 4 || (dev != 0 && cp == Cp::C4) || (dev == 3 && !v5);
                UPacket::UnsubAck {
                    pkid: if zero { 0 } else { self.pkid() },
                    props: self.props(cp, P_ACK, v5 && dev == 3, 300),
                    reasons: (0..n).map(|_| self.name(list)).collect(),
                }
            }
            11 => UPacket::PingReq,
            12 => UPacket::PingResp,
            _ => {
                let reason = match cp {
                    Cp::C4 => NORMAL.to_string(),
                    Cp::C5 => self.name(k5::DISCONNECT),
                    _ => self.name(kb::DISCONNECT),
                };
                UPacket::Disconnect { reason, props: self.props(cp, P_DISCONNECT, v5 && dev != 0, 300) }
            }
        };
        (u, None)
    }
}

/// `u` is a publish with an empty payload: choose the payload length so that the remaining length
/// written by the copy's real encoder becomes exactly `target` (falls back to a small payload)
fn fit_payload(cp: Cp, u: &mut UPacket, target: usize, g: &mut Gen) {
    let rl0 = match to_real(cp, u) {
        Some(r) => match encode(&r) {
            Enc::W(_, b) => frame_rl(&b),
            _ => None,
        },
        None => None,
    };
    let n = match rl0 {
        Some(x) if x <= target => target - x,
        _ => g.r.below(65) as usize,
    };
    if let UPacket::Publish { payload, .. } = u {
        *payload = g.bytes(n);
    }
}

fn has_varlen(u: &UPacket) -> bool {
    let np = |p: &UProps| p.as_ref().map_or(false, |v| !v.is_empty());
    match u {
        UPacket::Connect { .. } | UPacket::Publish { .. } => true,
        UPacket::ConnAck { props, .. } | UPacket::Ack { props, .. } | UPacket::Disconnect { props, .. } => np(props),
        UPacket::Subscribe { props, filters, .. } => np(props) || !filters.is_empty(),
        UPacket::SubAck { props, codes, .. } => np(props) || !codes.is_empty(),
        UPacket::Unsubscribe { props, filters, .. } => np(props) || !filters.is_empty(),
        UPacket::UnsubAck { props, reasons, .. } => np(props) || !reasons.is_empty(),
        UPacket::PingReq | UPacket::PingResp | UPacket::Auth => false,
    }
}

// ------------------------------------------------------------------------------------------
// hand-built frames for the exhaustive `dec` probes
// ------------------------------------------------------------------------------------------
fn frame(b1: u8, body: &[u8]) -> Vec<u8> {
    let mut v = vec![b1];
    let mut x = body.len();
    loop {
        let mut b = (x % 128) as u8;
        x /= 128;
        if x > 0 {
            b |= 0x80;
        }
        v.push(b);
        if x == 0 {
            break;
        }
    }
    v.extend_from_slice(body);
    v
}

const PROP_POSITIONS: usize = 13;

/// v5 frame whose property block at position `pos` is `01 <id> 00 00 00 00` (length byte counts
/// only the id) followed by the minimal valid tail of the packet
fn prop_probe(pos: usize, id: u8) -> Vec<u8> {
    let pb = [1u8, id, 0, 0, 0, 0];
    let cat = |parts: &[&[u8]]| parts.concat();
    const HDR: &[u8] = &[0, 4, b'M', b'Q', b'T', b'T', 5];
    match pos {
        0 => frame(0x10, &cat(&[HDR, &[0x02, 0, 10], &pb, &[0, 0]])),
        1 => frame(0x10, &cat(&[HDR, &[0x06, 0, 10, 0], &[0, 0], &pb, &[0, 1, b'a'], &[0, 0]])),
        2 => frame(0x20, &cat(&[&[0, 0], &pb])),
        3 => frame(0x30, &cat(&[&[0, 1, b'a'], &pb])),
        4 => frame(0x40, &cat(&[&[0, 1, 0], &pb])),
        5 => frame(0x50, &cat(&[&[0, 1, 0], &pb])),
        6 => frame(0x62, &cat(&[&[0, 1, 0], &pb])),
        7 => frame(0x70, &cat(&[&[0, 1, 0], &pb])),
        8 => frame(0x82, &cat(&[&[0, 1], &pb, &[0, 1, b'a', 0]])),
        9 => frame(0x90, &cat(&[&[0, 1], &pb, &[0]])),
        10 => frame(0xa2, &cat(&[&[0, 1], &pb, &[0, 1, b'a']])),
        11 => frame(0xb0, &cat(&[&[0, 1], &pb, &[0]])),
        _ => frame(0xe0, &cat(&[&[0], &pb])),
    }
}

/// frames probing one code / reason byte `c`
fn code_probes(cp: Cp, c: u8) -> Vec<Vec<u8>> {
    if !cp.v5() {
        return vec![frame(0x20, &[0, c]), frame(0x90, &[0, 1, c])];
    }
    let mut v = vec![frame(0x20, &[0, c, 0]), frame(0x90, &[0, 1, 0, c])];
    for b1 in [0x40u8, 0x50, 0x62, 0x70] {
        v.push(frame(b1, &[0, 1, c]));
        v.push(frame(b1, &[0, 1, c, 0]));
    }
    v.push(frame(0xb0, &[0, 1, 0, c]));
    v.push(frame(0xe0, &[c]));
    v.push(frame(0xe0, &[c, 0]));
    v
}

// ------------------------------------------------------------------------------------------
// output + statistics
// ------------------------------------------------------------------------------------------
struct Out {
    w: Box<dyn std::io::Write>,
    st: Stats,
    line: String,
    sampled: std::collections::HashSet<String>,
    lines: u64,
}

impl Out {
    fn packet(&mut self, cp: Cp, u: &UPacket, real: &Real) {
        self.line.clear();
        self.line.push_str(cp.tag());
        self.line.push(' ');
        let a = self.line.len();
        ctf_into(&mut self.line, u);
        let b = self.line.len();
        if self.lines % 64 == 0 {
            // the op text alone must reproduce the value
            let toks: Vec<&str> = self.line[a..b].split(' ').collect();
            assert!(parse_ctf(&toks).as_ref() == Some(u), "CTF does not parse back: {}", &self.line[..b.min(300)]);
        }
        self.line.push_str(" => ");
        let m = run_real(cp, u, real, &mut self.line);
        let kind = kind_name(u);
        let st = &mut self.st;
        st.eval();
        st.impl_panics += m.panics;
        st.tag(&format!("{}-{}", cp.tag(), kind));
        match m.enc {
            'W' => {
                if has_varlen(u) {
                    st.nontrivial(&&self.line[a..b]);
                }
                if let Some(rl) = m.rl {
                    if RL_BOUNDARIES.contains(&rl) {
                        st.tag(&format!("rl-boundary-{}", rl));
                    }
                }
                match m.slf {
                    'E' => st.tag(&format!("{}-dec-err", cp.tag())),
                    'P' => st.tag(&format!("{}-dec-panic", cp.tag())),
                    'M' => st.tag(&format!("{}-dec-differs", cp.tag())),
                    _ => {}
                }
                if m.cross != '=' {
                    st.tag(&format!("{}-cross-mismatch", cp.tag()));
                }
            }
            'E' => st.tag(&format!("{}-enc-err", cp.tag())),
            'P' => st.tag(&format!("{}-enc-panic", cp.tag())),
            _ => {}
        }
        if self.line.len() < 220 && (m.enc != 'W' || m.slf != '=' || m.cross != '=') && st.samples.len() < 12 {
            let key = format!("{}{}{}{}", kind, m.enc, m.slf, m.cross);
            if self.sampled.insert(key) {
                let mut s = self.line.clone();
                if m.panics > 0 {
                    s.push_str("   # ");
                    s.push_str(&last_panic());
                }
                st.sample(s);
            }
        }
        self.w.write_all(self.line.as_bytes()).unwrap();
        self.w.write_all(b"\n").unwrap();
        self.lines += 1;
    }

    fn dec(&mut self, cp: Cp, bytes: &[u8]) {
        self.line.clear();
        self.line.push_str("dec ");
        self.line.push_str(cp.tag());
        self.line.push(' ');
        hex_into(&mut self.line, bytes);
        self.line.push_str(" => ");
        let r = exec_dec(cp, bytes, &mut self.line);
        self.st.eval();
        self.st.tag(&format!("probe-{}", cp.tag()));
        match r {
            'P' => {
                self.st.impl_panics += 1;
                self.st.tag(&format!("{}-dec-panic", cp.tag()));
                if self.st.samples.len() < 4 && self.sampled.insert(format!("decP{}{}", cp.tag(), bytes[0] >> 4)) {
                    let s = format!("{}   # {}", self.line, last_panic());
                    self.st.sample(s);
                }
            }
            'E' => self.st.tag(&format!("probe-{}-err", cp.tag())),
            _ => self.st.tag(&format!("probe-{}-ok", cp.tag())),
        }
        self.w.write_all(self.line.as_bytes()).unwrap();
        self.w.write_all(b"\n").unwrap();
        self.lines += 1;
    }
}

fn probes(out: &mut Out) {
    for cp in [Cp::C5, Cp::B5] {
        for pos in 0..PROP_POSITIONS {
            for id in 0..=255u8 {
                out.dec(cp, &prop_probe(pos, id));
            }
        }
    }
    for cp in COPIES {
        for c in 0..=255u8 {
            for f in code_probes(cp, c) {
                out.dec(cp, &f);
            }
        }
        for b1 in 0..=255u8 {
            out.dec(cp, &[b1, 0]);
            out.dec(cp, &[b1, 2, 0, 1]);
        }
    }
}

pub fn run(o: &Opts) {
    let mut w = o.writer();
    if let Some(p) = &o.replay {
        use std::io::BufRead;
        let f = std::io::BufReader::with_capacity(1 << 20, std::fs::File::open(p).expect("replay file"));
        for line in f.lines() {
            let line = line.expect("replay line");
            let op = line.split("=>").next().unwrap().trim();
            if op.is_empty() || op.starts_with('#') {
                continue;
            }
            writeln!(w, "{} => {}", op, exec(op)).unwrap();
        }
        w.flush().unwrap();
        return;
    }
    let st = Stats::new(
        "one evaluation = one packet value pushed through write, size, read (same copy) and read (other crate); non-trivial = encoder succeeded and the packet has at least one variable-length field or property; distinct by canonical text",
    );
    let mut out = Out { w, st, line: String::with_capacity(1 << 16), sampled: Default::default(), lines: 0 };
    if o.shard == 0 {
        probes(&mut out);
    }
    let n: u64 = if o.thorough() { 1_500_000 / o.shards.max(1) } else { 20_000 };
    // 2 MiB frames cost ~8 MB of text and ~1.5 s of model time each: quick = one per copy and
    // boundary (8 lines), thorough = three per copy and boundary in shards 0..3 (96 lines)
    let nbig: u64 = if o.thorough() { if o.shard < 4 { 3 } else { 0 } } else if o.shard == 0 { 1 } else { 0 };
    let mut g = Gen { r: Rng::new(o.seed ^ (o.shard << 32) ^ 0xC0DEC), long_den: if o.thorough() { 20_000 } else { 2_000 } };
    for i in 0..n {
        for cp in COPIES {
            let kind = (i as usize) % NKINDS;
            let out_of_region = g.r.below(100) < 15;
            let mut tries = 0;
            let (u, real) = loop {
                let (mut u, target) = g.gen_one(cp, kind, out_of_region);
                if to_real(cp, &u).is_none() {
                    tries += 1;
                    out.st.tag("gen-retry");
                    assert!(tries < 200, "generator cannot produce kind {kind} for {}", cp.tag());
                    continue;
                }
                if let Some(t) = target {
                    fit_payload(cp, &mut u, t, &mut g);
                }
                let real = to_real(cp, &u).expect("representable");
                break (u, real);
            };
            out.packet(cp, &u, &real);
            drop(real);
            if i < nbig {
                // remaining length exactly 2097151 / 2097152 (3- vs 4-byte length encoding)
                for target in [2_097_151usize, 2_097_152] {
                    let qos = (i % 3) as u8;
                    let mut u = UPacket::Publish {
                        dup: false,
                        qos,
                        retain: i == 1,
                        topic: b"big/topic".to_vec(),
                        pkid: if qos == 0 { 0 } else { i as u16 + 1 },
                        payload: vec![],
                        props: if cp.v5() && i != 0 { Some(g.items(P_PUBLISH)) } else { None },
                    };
                    fit_payload(cp, &mut u, target, &mut g);
                    let real = to_real(cp, &u).expect("big publish representable");
                    out.packet(cp, &u, &real);
                }
            }
        }
    }
    out.w.flush().unwrap();
    if let Some(p) = &o.stats {
        out.st.write(p);
    }
}

/// variant-name lists of the copy's own enums (each list carries a compile-time exhaustiveness
/// check, see `names!`), in the order the Lean side expects; used by `vh tables`
pub fn variant_names(copy: &str, what: &str) -> Vec<&'static str> {
    let cp = match copy {
        "c4" => Cp::C4,
        "b4" => Cp::B4,
        "c5" => Cp::C5,
        _ => Cp::B5,
    };
    let l: &[&str] = match what {
        "connack" => connack_names(cp),
        "suback" => suback_names(cp),
        "puback" => ack_names(cp, AckKind::PubAck),
        "pubrec" => ack_names(cp, AckKind::PubRec),
        "pubrel" => ack_names(cp, AckKind::PubRel),
        "pubcomp" => ack_names(cp, AckKind::PubComp),
        "unsuback" => match cp {
            Cp::C5 => k5::UNSUBACK,
            _ => kb::UNSUBACK,
        },
        "disconnect" => match cp {
            Cp::C5 => k5::DISCONNECT,
            _ => kb::DISCONNECT,
        },
        _ => &[],
    };
    l.to_vec()
}
