//! Generators for the router harness: simulated clients ("sims") that behave well (ack in
//! order, signal data after pushes, send Ready only after a drained Unschedule) plus, per
//! profile, adversarial actions (unsolicited acks, stale events, malformed publishes).
//! Generation and execution are interleaved: each op is executed on the real router and the
//! observed output updates the sims' shadow state (connection id from CONNACK, forwards to ack…).
use crate::router::World;
use crate::util::*;
use std::collections::VecDeque;
use std::io::Write;

#[derive(Clone, Default)]
struct Sim {
    l: usize,
    cid: String,
    clean: bool,
    id: Option<usize>,
    alive: bool,
    subs: Vec<(String, u8)>,
    next_pkid: u16,
    unacked_fwd: VecDeque<(u16, u8)>,
    pending_comp: VecDeque<u16>,
    to_release: VecDeque<u16>,
    need_ready: bool,
    unsignalled: bool,
    adversary: bool,
    slow: bool,
    /// connection ids this link held in earlier epochs (its late signals carry them)
    old_ids: Vec<usize>,
}

pub struct Profile {
    pub name: &'static str,
    pub clients: (u64, u64),
    pub steps: (u64, u64),
    pub adversarial: bool,
    pub stale_events: bool,
    pub shared: bool,
    pub retained: bool,
    pub wills: bool,
    pub persistent: bool,
    pub takeover: bool,
    pub small_segments: bool,
    pub big_bursts: bool,
    pub max_conn_small: bool,
    pub v5: bool,
    pub late_signals: bool,
}

pub fn profile(name: &str) -> Profile {
    let base = Profile {
        name: "c01",
        clients: (1, 5),
        steps: (30, 300),
        adversarial: false,
        stale_events: false,
        shared: false,
        retained: false,
        wills: false,
        persistent: false,
        takeover: false,
        small_segments: false,
        big_bursts: true,
        max_conn_small: false,
        v5: false,
        late_signals: false,
    };
    match name {
        "c01" => Profile { name: "c01", retained: true, ..base },
        "c03" => Profile { name: "c03", adversarial: true, stale_events: true, shared: true, persistent: true, takeover: true, wills: true, retained: true, v5: true, steps: (20, 200), ..base },
        "c06" => Profile { name: "c06", v5: true, ..base },
        "c08" => Profile { name: "c08", persistent: true, takeover: true, retained: true, shared: true, clients: (2, 4), ..base },
        "c09" => Profile { name: "c09", clients: (2, 3), retained: true, shared: true, ..base },
        "c14" => Profile { name: "c14", adversarial: true, persistent: true, late_signals: true, clients: (3, 5), ..base },
        "c15" => Profile { name: "c15", retained: true, shared: true, wills: true, clients: (2, 4), big_bursts: false, ..base },
        "c16" => Profile { name: "c16", wills: true, retained: true, clients: (2, 4), big_bursts: false, ..base },
        "c17" => Profile { name: "c17", shared: true, persistent: true, clients: (3, 5), ..base },
        "c19" => Profile { name: "c19", takeover: true, max_conn_small: true, persistent: true, clients: (3, 6), big_bursts: false, steps: (20, 120), ..base },
        "c20" => Profile { name: "c20", v5: true, clients: (2, 3), big_bursts: false, ..base },
        _ => base,
    }
}

const LEVELS: [&str; 6] = ["a", "b", "c", "é", "", "x1"];

fn rand_topic(rng: &mut Rng) -> String {
    let n = rng.range(1, 3);
    let mut ls = vec![];
    for _ in 0..n {
        ls.push(*rng.pick(&LEVELS[..4]));
    }
    ls.join("/")
}

fn rand_filter(rng: &mut Rng, p: &Profile) -> String {
    let k = rng.below(10);
    let f = match k {
        0..=3 => rand_topic(rng),
        4 => "#".to_string(),
        5 => format!("{}/#", rng.pick(&LEVELS[..3])),
        6 => format!("+/{}", rng.pick(&LEVELS[..4])),
        7 => format!("{}/+", rng.pick(&LEVELS[..3])),
        8 => "+".to_string(),
        _ => format!("{}/+/#", rng.pick(&LEVELS[..2])),
    };
    if p.shared && rng.chance(1, 2) {
        format!("$share/{}/{}", rng.pick(&["g", "h"]), f)
    } else {
        f
    }
}

struct Gen<'a> {
    w: &'a mut dyn Write,
    world: World,
    rng: Rng,
    sims: Vec<Sim>,
    seq: u64,
    ops: u64,
    p: &'a Profile,
    /// the stalled-consumer action ran in this case (it is long: once per case)
    stalled: bool,
    st: &'a mut Stats,
    dead: bool,
    nontrivial_marks: u64,
    spun: bool,
}

impl<'a> Gen<'a> {
    fn op(&mut self, op: String) -> String {
        let out = self.world.exec(&op);
        writeln!(self.w, "{op} => {out}").unwrap();
        self.ops += 1;
        // a case is cut when it grows beyond all proportion (normal cases have a few thousand ops):
        // keeps a run bounded when a defect makes the router re-forward or spin
        if self.ops > 40_000 && !self.dead {
            self.dead = true;
            self.st.tag("case-cut-overlong");
        }
        let kind = op.split_whitespace().take(if op.starts_with("ev") { 3 } else { 1 }).filter(|t| t.parse::<u64>().is_err()).collect::<Vec<_>>().join("-");
        self.st.tag(&format!("op:{kind}"));
        if out.starts_with("PANIC") {
            self.st.impl_panics += 1;
            self.st.tag("impl-panic");
            self.dead = true;
        }
        out
    }

    fn connect(&mut self, i: usize) {
        let s = self.sims[i].clone();
        let will = if self.p.wills && self.rng.chance(1, 2) {
            // the will payload is sometimes empty (a retained will with an empty message clears the topic)
            let payload = if self.rng.chance(1, 5) { String::new() } else { format!("w{}", s.l) };
            format!("{} {} {} {}", hex(rand_topic(&mut self.rng).as_bytes()), hex(payload.as_bytes()), self.rng.below(2), self.rng.below(2))
        } else {
            "-".to_string()
        };
        let alias = if self.p.v5 && self.rng.chance(1, 2) { self.rng.range(1, 4) } else { 0 };
        let l = s.l;
        self.op(format!("connect {l} {} {} 0 {alias} {will}", hex(s.cid.as_bytes()), s.clean as u8));
        // a link whose connection is replaced by this one (same client id) sees its channel
        // close and stops: it sends nothing further
        let cid = self.sims[i].cid.clone();
        for j in 0..self.sims.len() {
            if j != i && self.sims[j].cid == cid {
                self.sims[j].alive = false;
                if let Some(old) = self.sims[j].id.take() {
                    self.sims[j].old_ids.push(old);
                }
            }
        }
        if let Some(old) = self.sims[i].id {
            self.sims[i].old_ids.push(old);
        }
        let sim = &mut self.sims[i];
        sim.alive = true;
        sim.id = None;
        sim.unacked_fwd.clear();
        sim.pending_comp.clear();
        sim.to_release.clear();
        sim.need_ready = false;
        sim.unsignalled = false;
        if sim.clean {
            sim.subs.clear();
        }
    }

    /// process the output of a drain for sim i
    fn absorb(&mut self, i: usize, out: &str) -> bool {
        if !out.starts_with("tok=1") {
            return false;
        }
        let mut active = false;
        for item in out.split(" ; ").next().unwrap().split(" | ").skip(1) {
            active = true;
            let t: Vec<&str> = item.split_whitespace().collect();
            let sim = &mut self.sims[i];
            match t[0] {
                "connack" => sim.id = t[1].parse().ok(),
                "fwd" => {
                    let q: u8 = t[1].parse().unwrap();
                    if q > 0 {
                        sim.unacked_fwd.push_back((t[2].parse().unwrap(), q));
                    }
                    self.st.tag("fwd-received");
                }
                "pubrel" => sim.pending_comp.push_back(t[1].parse().unwrap()),
                "pubrec" => sim.to_release.push_back(t[1].parse().unwrap()),
                "unsched" => {
                    sim.need_ready = true;
                    self.st.tag("unschedule-seen");
                    self.nontrivial_marks += 1;
                }
                "disconnect" => {}
                _ => {}
            }
        }
        active
    }

    fn drain(&mut self, i: usize) -> bool {
        let l = self.sims[i].l;
        let out = self.op(format!("drain {l}"));
        self.absorb(i, &out)
    }

    fn signal(&mut self, i: usize) {
        if let Some(id) = self.sims[i].id {
            if self.sims[i].unsignalled {
                self.op(format!("ev {id} data"));
                self.sims[i].unsignalled = false;
            }
        }
    }

    fn push(&mut self, i: usize, pkt: String) {
        let l = self.sims[i].l;
        self.op(format!("push {l} {pkt}"));
        self.sims[i].unsignalled = true;
    }

    fn pkid(&mut self, i: usize) -> u16 {
        let s = &mut self.sims[i];
        s.next_pkid = if s.next_pkid >= 65535 { 1 } else { s.next_pkid + 1 };
        s.next_pkid
    }

    fn publish(&mut self, i: usize, burst: u64) {
        let topic = rand_topic(&mut self.rng);
        for _ in 0..burst {
            let qos = self.rng.below(3) as u8;
            let pkid = if qos == 0 { 0 } else { self.pkid(i) };
            self.seq += 1;
            let retain = self.p.retained && self.rng.chance(1, 3);
            // empty payloads: mostly on retained publishes (clearing), sometimes on ordinary ones
            let payload = if self.rng.chance(1, if retain { 4 } else { 12 }) { String::new() } else { format!("m{}", self.seq) };
            let t = if self.rng.chance(1, 6) { rand_topic(&mut self.rng) } else { topic.clone() };
            let (alias, props) = if self.p.v5 && self.rng.chance(1, 4) { (format!("{}", self.rng.range(1, 3)), 1) } else { ("-".to_string(), if self.p.v5 && self.rng.chance(1, 5) { 1 } else { 0 }) };
            self.push(i, format!("pub {qos} {pkid} {} 0 {} {} {alias} - {props}", retain as u8, hex(t.as_bytes()), hex(payload.as_bytes())));
            if qos == 2 {
                // released after the pubrec is drained
            }
        }
        if burst > 1 {
            self.st.tag("burst");
        }
    }

    fn subscribe(&mut self, i: usize) {
        let n = if self.rng.chance(1, 4) { self.rng.range(2, 3) } else { 1 };
        let n = if self.p.shared && n == 1 && self.rng.chance(1, 6) { 2 } else { n };
        let pkid = self.pkid(i);
        let mut s = format!("sub {pkid} {} {n}", if self.p.v5 && self.rng.chance(1, 3) { format!("{}", self.rng.range(1, 9)) } else { "-".into() });
        // sometimes a plain and a shared subscription of one client on the same path: both read
        // the same log (the window records the log, not the subscription)
        let twin = self.p.shared && self.rng.chance(1, 5);
        let mut prev: Option<String> = None;
        for k in 0..n {
            let mut f = rand_filter(&mut self.rng, self.p);
            if twin && k == 1 {
                if let Some(p0) = &prev {
                    let path = p0.strip_prefix("$share/").and_then(|r| r.split_once('/')).map_or(p0.as_str(), |x| x.1).to_string();
                    f = if p0.starts_with("$share/") { path } else { format!("$share/{}/{}", self.rng.pick(&["g", "h"]), path) };
                }
            }
            prev = Some(f.clone());
            let q = self.rng.below(3) as u8;
            s.push_str(&format!(" {} {q}", hex(f.as_bytes())));
            self.sims[i].subs.push((f, q));
        }
        self.push(i, s);
    }

    fn unsubscribe(&mut self, i: usize) {
        let pkid = self.pkid(i);
        let f = if !self.sims[i].subs.is_empty() && self.rng.chance(4, 5) {
            let k = self.rng.below(self.sims[i].subs.len() as u64) as usize;
            self.sims[i].subs.remove(k).0
        } else {
            rand_filter(&mut self.rng, self.p)
        };
        let extra = if self.rng.chance(1, 4) && !self.sims[i].subs.is_empty() {
            let k = self.rng.below(self.sims[i].subs.len() as u64) as usize;
            Some(self.sims[i].subs.remove(k).0)
        } else {
            None
        };
        match extra {
            Some(g) => self.push(i, format!("unsub {pkid} 2 {} {}", hex(f.as_bytes()), hex(g.as_bytes()))),
            None => self.push(i, format!("unsub {pkid} 1 {}", hex(f.as_bytes()))),
        }
    }

    /// acknowledge up to n pending items in order (well-behaved)
    fn ack(&mut self, i: usize, n: u64) -> bool {
        let mut did = false;
        for _ in 0..n {
            if let Some(p) = self.sims[i].to_release.pop_front() {
                // an MQTT 5 client may attach properties to the release
                let kind = if self.p.v5 && self.rng.chance(1, 3) { "pubrelp" } else { "pubrel" };
                self.push(i, format!("{kind} {p}"));
                did = true;
            } else if let Some(p) = self.sims[i].pending_comp.pop_front() {
                self.push(i, format!("pubcomp {p}"));
                did = true;
            } else if let Some((p, q)) = self.sims[i].unacked_fwd.pop_front() {
                self.push(i, format!("{} {p}", if q == 1 { "puback" } else { "pubrec" }));
                did = true;
            } else {
                break;
            }
        }
        did
    }

    fn ready(&mut self, i: usize) {
        if self.sims[i].need_ready {
            if let Some(id) = self.sims[i].id {
                self.op(format!("ev {id} ready"));
            }
            self.sims[i].need_ready = false;
        }
    }

    fn disconnect(&mut self, i: usize) {
        let Some(id) = self.sims[i].id else { return };
        if self.rng.chance(1, 2) {
            self.push(i, "disc".to_string());
            self.signal(i);
            // a real link also reports the closed socket afterwards
            if self.rng.chance(1, 2) {
                self.op(format!("ev {id} disc"));
            }
        } else {
            self.op(format!("ev {id} disc"));
            if self.p.wills && self.rng.chance(3, 4) {
                self.op(format!("ev {id} will {}", hex(self.sims[i].cid.as_bytes())));
            }
        }
        self.sims[i].alive = false;
        self.sims[i].old_ids.push(id);
        self.sims[i].id = None;
        self.st.tag("disconnect");
    }

    fn adversarial(&mut self, i: usize) {
        let k = self.rng.below(14);
        let pk = self.rng.pick(&[0u16, 1, 2, 50, 100, 101, 65535]).to_owned();
        self.st.tag("adversarial");
        let a7 = *self.rng.pick(&[0u32, 1, 9, 5000]);
        let a8a = *self.rng.pick(&["-", "0"]);
        let a8b = *self.rng.pick(&["$sys/x", "$share/g", "$share//a", "é/#", "#/a", "", "a+/b"]);
        let a9 = *self.rng.pick(&["connack", "pingresp", "connectpkt", "suback 1", "unsuback 1"]);
        let pkt = match k {
            0 => format!("puback {pk}"),
            1 => format!("pubrec {pk}"),
            2 => format!("pubcomp {pk}"),
            3 => format!("pubrel {pk}"),
            4 => format!("pubrelp {pk}"),
            5 => format!("pub 1 {pk} 0 0 {} {} - - 0", hex(&[0xff, 0xfe]), hex(b"x")),
            6 => format!("pub 0 0 0 0 {} {} - 7 1", hex(b"a"), hex(b"x")),
            7 => format!("pub 0 0 0 0 - {} {a7} - 1", hex(b"x")),
            8 => format!("sub {pk} {a8a} 1 {} 1", hex(a8b.as_bytes())),
            9 => a9.to_string(),
            10 => format!("pub 1 {pk} 1 1 {} {} - - 0", hex("é/😀".as_bytes()), hex(b"u")),
            11 => format!("pub 2 {pk} 0 0 {} {} - - 0", hex(b"$sys/a"), hex(b"d")),
            12 => format!("unsub {pk} 1 {}", hex(b"$share/g/a")),
            _ => format!("pub 0 0 0 0 {} - - - 0", hex(b"a/b")),
        };
        self.push(i, pkt);
        if self.rng.chance(3, 4) {
            self.signal(i);
        }
    }

    /// a late signal of a connection that has ended (its link notices the closed socket after the
    /// router already removed it): carries the old slot id, which may have been reused
    fn late_signal(&mut self) -> bool {
        let cands: Vec<(usize, usize)> = self.sims.iter().flat_map(|s| s.old_ids.iter().map(move |o| (s.l, *o))).collect();
        if cands.is_empty() {
            return false;
        }
        let (l, id) = *self.rng.pick(&cands);
        let kind = *self.rng.pick(&["disc", "ready", "data"]);
        self.st.tag("late-signal");
        self.op(format!("ev {id} {kind} @{l}"));
        true
    }

    fn stale_event(&mut self) {
        if self.rng.chance(1, 2) && self.late_signal() {
            return;
        }
        let id = *self.rng.pick(&[0u64, 1, 2, 3, 7, 1000]);
        let k = self.rng.below(6);
        self.st.tag("stale-or-foreign-event");
        let op = match k {
            0 => format!("ev {id} ready"),
            1 => format!("ev {id} disc"),
            2 => format!("ev {id} data"),
            3 => format!("ev {id} shadow {}", hex(b"a")),
            4 => format!("ev {id} will {}", hex(self.rng.pick(&["c0", "c1", "nobody"]).as_bytes())),
            _ => format!("ev {id} {}", self.rng.pick(&["meters", "alerts"])),
        };
        self.op(op);
    }

    /// drive the router until nothing moves any more; returns whether idle was reached
    fn run_to_idle(&mut self) -> bool {
        let mut only_consume = 0;
        // a router that spins (a shared-subscription request skipped forever) never goes idle:
        // after the first detection the later attempts are kept short
        let rounds = if self.spun { 3 } else { 400 };
        let consumes = if self.spun { 12 } else { 120 };
        for _round in 0..rounds {
            if self.dead {
                return false;
            }
            let mut active = false;
            let mut other = false;
            for i in 0..self.sims.len() {
                if self.sims[i].alive {
                    self.signal(i);
                }
            }
            for _ in 0..consumes {
                if self.op("consume".into()).starts_with('0') || self.dead {
                    break;
                }
                active = true;
            }
            for i in 0..self.sims.len() {
                if !self.sims[i].alive || self.sims[i].slow && false {
                    continue;
                }
                for _ in 0..4 {
                    if !self.drain(i) {
                        break;
                    }
                    active = true;
                    other = true;
                }
                if self.ack(i, 1000) {
                    active = true;
                    other = true;
                }
                self.signal(i);
                if self.sims[i].need_ready {
                    self.ready(i);
                    active = true;
                    other = true;
                }
            }
            // the router keeps consuming but nothing reaches any link: it spins
            only_consume = if active && !other { only_consume + 1 } else { 0 };
            if only_consume >= 3 {
                break;
            }
            if !active {
                self.op("idle".into());
                self.st.tag("idle-reached");
                return true;
            }
        }
        self.op("note spin".into());
        self.st.tag("spin");
        self.spun = true;
        false
    }

    /// C16: the broker is full; a CONNECT with a will is refused; a slot frees; the same client
    /// connects without a will and its link fails: no will may be published
    fn refused_will(&mut self) {
        if self.sims.len() < 2 {
            return;
        }
        // a witness subscribed to everything
        for _ in 0..3 {
            self.op("consume".into());
        }
        self.drain(1);
        if self.sims[1].id.is_none() {
            return;
        }
        let pk = self.pkid(1);
        self.push(1, format!("sub {pk} - 1 {} 1", hex(b"#")));
        self.sims[1].subs.push(("#".into(), 1));
        self.signal(1);
        self.op("consume".into());
        let l = self.sims.len();
        let cid = format!("c{l}");
        self.op(format!("connect {l} {} 1 0 0 {} {} 1 0", hex(cid.as_bytes()), hex(b"stale/will"), hex(b"stale")));
        self.op(format!("drain {l}"));
        // a slot frees
        self.drain(0);
        if let Some(id) = self.sims[0].id {
            self.op(format!("ev {id} disc"));
            self.sims[0].alive = false;
            self.sims[0].old_ids.push(id);
            self.sims[0].id = None;
        } else {
            return;
        }
        let mut s = Sim { l, cid: cid.clone(), clean: true, ..Default::default() };
        s.alive = true;
        self.sims.push(s);
        self.op(format!("connect {l} {} 1 0 0 -", hex(cid.as_bytes())));
        self.op("consume".into());
        self.drain(l);
        if let Some(id) = self.sims[l].id {
            self.op(format!("ev {id} disc"));
            self.op(format!("ev {id} will {}", hex(cid.as_bytes())));
            self.sims[l].alive = false;
            self.sims[l].old_ids.push(id);
            self.sims[l].id = None;
        }
        self.run_to_idle();
        self.st.tag("refused-connect-with-will");
    }

    fn step(&mut self) {
        let n = self.sims.len();
        let i = self.rng.below(n as u64) as usize;
        if !self.sims[i].alive {
            if self.rng.chance(2, 3) {
                if self.p.persistent && self.rng.chance(1, 3) {
                    self.sims[i].clean = !self.sims[i].clean;
                }
                self.connect(i);
            }
            return;
        }
        if self.sims[i].id.is_none() {
            // must learn its id first
            self.op("consume".into());
            self.drain(i);
            return;
        }
        let adv = self.p.adversarial && self.sims[i].adversary;
        let w = [
            18, // publish
            8,  // subscribe
            2,  // unsubscribe
            10, // consume
            10, // drain
            8,  // ack some
            4,  // signal
            3,  // ready
            2,  // ping
            if self.p.persistent || self.p.wills || self.p.takeover { 3 } else { 1 }, // disconnect
            if adv { 10 } else { 0 },
            if self.p.stale_events { 3 } else if self.p.late_signals { 2 } else { 0 },
            3,  // run to idle
            if self.p.takeover { 2 } else { 0 },
            2, // one batch: publishes followed by a packet that ends the connection
            if self.p.name == "c09" { 2 } else if self.p.name == "c17" { 1 } else { 0 }, // fill the window, then a new QoS>0 subscription with retained matches
            2, // one batch: a publish matching a subscription of this client, then UNSUBSCRIBE of it
            if (self.p.name == "c03" || self.p.name == "c14") && !self.stalled { 1 } else { 0 }, // stalled consumer
            if self.p.name == "c17" && !self.stalled && self.sims.len() >= 3 { 1 } else { 0 }, // group whose turn holder is blocked by a full window
        ];
        match self.rng.weighted(&w) {
            0 => {
                let burst = if self.p.big_bursts && self.rng.chance(1, 12) { self.rng.range(100, 420) } else if self.rng.chance(1, 3) { self.rng.range(2, 12) } else { 1 };
                self.publish(i, burst);
                if self.rng.chance(4, 5) {
                    self.signal(i);
                }
            }
            1 => {
                self.subscribe(i);
                if self.rng.chance(4, 5) {
                    self.signal(i);
                }
            }
            2 => {
                self.unsubscribe(i);
                self.signal(i);
            }
            3 => {
                for _ in 0..self.rng.range(1, 5) {
                    self.op("consume".into());
                }
            }
            4 => {
                self.drain(i);
            }
            5 => {
                let k = *self.rng.pick(&[1u64, 1, 2, 5, 100]);
                self.ack(i, k);
                if self.rng.chance(3, 4) {
                    self.signal(i);
                }
            }
            6 => self.signal(i),
            7 => self.ready(i),
            8 => {
                self.push(i, "ping".into());
                self.signal(i);
            }
            9 => self.disconnect(i),
            10 => self.adversarial(i),
            11 => {
                if self.p.stale_events {
                    self.stale_event()
                } else {
                    self.late_signal();
                }
            }
            12 => {
                self.run_to_idle();
            }
            15 => {
                // C09: the subscriber's window is (nearly) full of unacknowledged publishes when it
                // makes a new QoS>0 subscription whose filter matches retained messages
                let Some(_) = self.sims[i].id else { return };
                let j = (i + 1) % self.sims.len();
                if j == i || !self.sims[j].alive || self.sims[j].id.is_none() {
                    return;
                }
                let pk = self.pkid(i);
                // (C17: the window is filled through a shared subscription, whose member then
                // holds the turn with no free slot)
                let wf: &[u8] = if self.p.shared && self.rng.chance(1, 2) { b"$share/g/w/#" } else { b"w/#" };
                self.push(i, format!("sub {pk} - 1 {} 1", hex(wf)));
                self.signal(i);
                // some retained messages on other topics, then the backlog
                for t in ["r/1", "r/2", "r/3", "r/4", "r/5", "r/6", "r/7", "r/8"] {
                    self.seq += 1;
                    let pk = self.pkid(j);
                    self.push(j, format!("pub 1 {pk} 1 0 {} {} - - 0", hex(t.as_bytes()), hex(format!("m{}", self.seq).as_bytes())));
                }
                let n = self.rng.range(93, 104);
                for _ in 0..n {
                    self.seq += 1;
                    let pk = self.pkid(j);
                    self.push(j, format!("pub 1 {pk} 0 0 {} {} - - 0", hex(b"w/x"), hex(format!("m{}", self.seq).as_bytes())));
                }
                self.signal(j);
                for _ in 0..6 {
                    self.op("consume".into());
                }
                // no drain, no ack: now the new subscription
                let pk = self.pkid(i);
                self.push(i, format!("sub {pk} - 1 {} 1", hex(b"r/+")));
                self.signal(i);
                for _ in 0..4 {
                    self.op("consume".into());
                }
                self.drain(i);
                self.drain(i);
                self.st.tag("window-then-subscribe");
            }
            16 => {
                // a publish that wakes this client's own parked request (and those of the other
                // subscribers of the filter), then the UNSUBSCRIBE of that filter, in ONE batch
                let Some(_) = self.sims[i].id else { return };
                if self.sims[i].subs.is_empty() {
                    return;
                }
                let k = self.rng.below(self.sims[i].subs.len() as u64) as usize;
                let (f, _) = self.sims[i].subs[k].clone();
                // often another live client holds the same filter and everyone is caught up
                if self.rng.chance(2, 3) {
                    let j = (i + 1) % self.sims.len();
                    if j != i && self.sims[j].alive && self.sims[j].id.is_some() && !self.sims[j].subs.iter().any(|x| x.0 == f) {
                        let pk = self.pkid(j);
                        let q = self.rng.below(3) as u8;
                        self.push(j, format!("sub {pk} - 1 {} {q}", hex(f.as_bytes())));
                        self.sims[j].subs.push((f.clone(), q));
                        self.signal(j);
                    }
                    self.run_to_idle();
                    if self.dead || !self.sims[i].alive || self.sims[i].id.is_none() {
                        return;
                    }
                }
                let path = f.strip_prefix("$share/").and_then(|r| r.split_once('/')).map_or(f.as_str(), |x| x.1);
                let topic: Vec<&str> = path.split('/').filter(|l| *l != "#").map(|l| if l == "+" { "a" } else { l }).collect();
                let topic = if topic.is_empty() { "a".to_string() } else { topic.join("/") };
                for _ in 0..self.rng.range(1, 2) {
                    let qos = self.rng.below(3) as u8;
                    let pkid = if qos == 0 { 0 } else { self.pkid(i) };
                    self.seq += 1;
                    self.push(i, format!("pub {qos} {pkid} 0 0 {} {} - - 0", hex(topic.as_bytes()), hex(format!("m{}", self.seq).as_bytes())));
                }
                let pk = self.pkid(i);
                self.push(i, format!("unsub {pk} 1 {}", hex(f.as_bytes())));
                self.sims[i].subs.remove(k);
                self.signal(i);
                // more traffic on the topic afterwards: the other subscribers must keep receiving it
                let j = (i + 1) % self.sims.len();
                if j != i && self.sims[j].alive && self.sims[j].id.is_some() {
                    for _ in 0..2 {
                        self.seq += 1;
                        self.push(j, format!("pub 0 0 0 0 {} {} - - 0", hex(topic.as_bytes()), hex(format!("m{}", self.seq).as_bytes())));
                    }
                    self.signal(j);
                }
                self.st.tag("publish-then-unsubscribe-batch");
            }
            17 => {
                // a consumer that stops reading: more acknowledged batches than its wake-up channel
                // holds, none drained; the router must keep serving (the others and this one)
                let Some(_) = self.sims[i].id else { return };
                self.stalled = true;
                let n = self.rng.range(205, 230);
                for _ in 0..n {
                    self.push(i, "ping".into());
                    self.signal(i);
                    if self.dead {
                        return;
                    }
                }
                self.st.tag("stalled-consumer");
            }
            18 => {
                // C17: three members of one group; the last one never acknowledges, so that it ends
                // up holding the turn with a full window while the others are parked behind the
                // next message; then a member that does NOT hold the turn leaves; then the blocked
                // member acknowledges. The message must still reach a member.
                self.stalled = true;
                let ms: Vec<usize> = (0..self.sims.len()).filter(|&k| self.sims[k].alive && self.sims[k].id.is_some()).take(3).collect();
                if ms.len() < 3 {
                    return;
                }
                let (a, b, c) = (ms[0], ms[1], ms[2]);
                for &m in &[a, b, c] {
                    let pk = self.pkid(m);
                    self.push(m, format!("sub {pk} - 1 {} 1", hex(b"$share/k/z/#")));
                    self.sims[m].subs.push(("$share/k/z/#".into(), 1));
                    self.signal(m);
                }
                self.run_to_idle();
                if self.dead { return; }
                let p = a;
                // enough messages for every member to be offered more than a window
                for round in 0..36 {
                    for _ in 0..10 {
                        self.seq += 1;
                        self.push(p, format!("pub 0 0 0 0 {} {} - - 0", hex(b"z/x"), hex(format!("m{}", self.seq).as_bytes())));
                    }
                    self.signal(p);
                    for _ in 0..40 {
                        if self.op("consume".into()).starts_with('0') || self.dead { break; }
                    }
                    // a and b read and acknowledge, c only reads
                    for &m in &[a, b] {
                        while self.drain(m) {}
                        self.ack(m, 1000);
                        self.signal(m);
                    }
                    while self.drain(c) {}
                    if self.dead { return; }
                    let _ = round;
                }
                // a member other than c leaves the group
                let leaver = if self.rng.chance(1, 2) { a } else { b };
                let pk = self.pkid(leaver);
                self.push(leaver, format!("unsub {pk} 1 {}", hex(b"$share/k/z/#")));
                self.sims[leaver].subs.retain(|x| x.0 != "$share/k/z/#");
                self.signal(leaver);
                for _ in 0..6 {
                    self.op("consume".into());
                }
                // now c acknowledges everything
                self.ack(c, 1000);
                self.signal(c);
                self.run_to_idle();
                self.st.tag("blocked-turn-holder");
            }
            14 => {
                // accepted publishes and the connection's end handled in ONE device-data batch
                let burst = self.rng.range(1, 3);
                self.publish(i, burst);
                let Some(id) = self.sims[i].id else { return };
                if self.rng.chance(1, 2) {
                    self.push(i, "disc".to_string());
                } else {
                    let bad = *self.rng.pick(&[0u16, 7, 101]);
                    self.push(i, format!("puback {bad}"));
                }
                // sometimes more packets follow the closing one in the same read: they must die
                // with the connection (and never reach another connection's buffer)
                if self.rng.chance(1, 2) {
                    for _ in 0..self.rng.range(1, 3) {
                        self.seq += 1;
                        let pk = self.pkid(i);
                        let t = rand_topic(&mut self.rng);
                        let line = format!("pub 1 {pk} 0 0 {} {} - - 0", hex(t.as_bytes()), hex(format!("m{}", self.seq).as_bytes()));
                        self.push(i, line);
                    }
                    if self.rng.chance(1, 2) {
                        self.push(i, "puback 9".to_string());
                    }
                    self.st.tag("packets-after-the-closing-one");
                }
                self.signal(i);
                self.sims[i].alive = false;
                self.sims[i].old_ids.push(id);
                self.sims[i].id = None;
                self.st.tag("publish-then-close-batch");
            }
            _ => {
                // takeover: another link connects with the same client id
                let cid = self.sims[i].cid.clone();
                let l = self.sims.len();
                let mut s = Sim { l, cid, clean: self.rng.chance(1, 2), ..Default::default() };
                s.subs = if s.clean { vec![] } else { self.sims[i].subs.clone() };
                s.next_pkid = 0;
                self.sims[i].alive = false;
                self.sims[i].id = None;
                self.sims.push(s);
                self.connect(l);
                self.st.tag("takeover");
            }
        }
    }
}

fn one_case(o: &Opts, w: &mut dyn Write, st: &mut Stats, p: &Profile, case: u64, seed: u64) {
    let mut rng = Rng::new(seed);
    writeln!(w, "case {}-{}", p.name, case).unwrap();
    // C16: some cases run at capacity, so that a CONNECT carrying a will is refused
    let refused_will = p.name == "c16" && rng.chance(1, 3);
    let max_conn = if p.max_conn_small { rng.range(1, 3) } else { 10 };
    let (seg_size, seg_count) = if p.small_segments && rng.chance(1, 2) { (1024, rng.range(1, 3)) } else { (*rng.pick(&[1024u64, 10240]), *rng.pick(&[3u64, 10, 100])) };
    let max_out = *rng.pick(&[1u64, 2, 10, 200, 1024]);
    let strat = *rng.pick(&["rr", "rnd", "sticky"]);
    let nclients = rng.range(p.clients.0, p.clients.1);
    let max_conn = if refused_will { nclients } else { max_conn };
    let steps = rng.range(p.steps.0, if o.thorough() { p.steps.1 * 2 } else { p.steps.1 });
    let mut g = Gen { w, world: World::new(), rng, sims: vec![], seq: 0, ops: 0, p, st, dead: false, nontrivial_marks: 0, spun: false, stalled: false };
    g.op(format!("new {max_conn} {seg_size} {seg_count} {max_out} {strat}"));
    for l in 0..nclients as usize {
        let clean = if p.persistent { g.rng.chance(1, 2) } else { true };
        let adversary = p.adversarial && l >= 2;
        g.sims.push(Sim { l, cid: format!("c{l}"), clean, adversary, ..Default::default() });
        g.connect(l);
        if adversary {
            // nothing is promised to a client that misbehaves on purpose: tell the monitors
            g.op(format!("note adv {l}"));
        }
    }
    if refused_will {
        g.refused_will();
    }
    for _ in 0..steps {
        if g.dead {
            break;
        }
        g.step();
    }
    if !g.dead {
        g.run_to_idle();
    }
    let (ops, fw) = (g.ops, g.nontrivial_marks);
    st.eval();
    st.tagn("ops-total", ops);
    // non-trivial: a case that forwarded at least one message to a subscriber and reached idle or hit back-pressure
    let _ = fw;
}

/// C03/C14: every sequence of `len` symbols over a fixed alphabet of router-level stimuli
/// (including stale, foreign and duplicated signals) after a fixed prelude; each op runs under
/// catch_unwind in the harness. Exhaustive small scope = validation of the model against the code
/// and search for failing inputs, not a proof.
fn exhaustive_c03(o: &Opts, w: &mut dyn Write, st: &mut Stats, len: usize) {
    let alphabet: Vec<Vec<String>> = vec![
        vec!["consume".into()],
        vec!["drain 0".into()],
        vec![format!("connect 2 {} 0 0 0 -", hex(b"a"))],                 // takeover of client a (persistent)
        vec![format!("connect 3 {} 1 0 0 {} {} 1 1", hex(b"c"), hex(b"w/t"), hex(b"will"))],
        vec![format!("push 0 sub 5 - 2 {} 1 {} 2", hex(b"t/#"), hex(b"$share/g/t/#")), "ev 0 data".into()],
        vec![format!("push 1 pub 1 7 1 0 {} {} - - 0", hex(b"t/x"), hex(b"p")), "ev 1 data".into()],
        vec!["push 0 puback 1".into(), "ev 0 data".into()],               // ack (solicited or not)
        vec!["push 0 disc".into(), "ev 0 data".into()],
        vec![format!("push 1 unsub 9 2 {} {}", hex(b"t/#"), hex(b"nope")), "ev 1 data".into()],
        vec!["ev 0 ready".into()],
        vec!["ev 0 disc".into()],
        vec!["ev 5 data".into()],                                           // never-registered id
        vec![format!("ev 1 will {}", hex(b"c"))],
        vec![format!("ev 0 shadow {}", hex(b"t/#"))],
    ];
    let n = alphabet.len();
    let total = n.pow(len as u32);
    for code in 0..total {
        if (code as u64) % o.shards != o.shard {
            continue;
        }
        let mut world = World::new();
        writeln!(w, "case c03x-{len}-{code}").unwrap();
        let mut ops: Vec<String> = vec![
            "new 3 1024 2 2 rr".into(),
            format!("connect 0 {} 0 0 0 -", hex(b"a")),
            format!("connect 1 {} 1 0 2 -", hex(b"b")),
            "consume".into(),
            "consume".into(),
            "drain 0".into(),
            "drain 1".into(),
            format!("push 0 sub 1 - 1 {} 1", hex(b"t/+")),
            "ev 0 data".into(),
            "consume".into(),
        ];
        let mut c = code;
        for _ in 0..len {
            ops.extend(alphabet[c % n].iter().cloned());
            c /= n;
        }
        ops.push("consume".into());
        ops.push("drain 0".into());
        ops.push("drain 1".into());
        let mut panicked = false;
        for op in ops {
            let out = world.exec(&op);
            writeln!(w, "{op} => {out}").unwrap();
            if out.starts_with("PANIC") {
                st.impl_panics += 1;
                panicked = true;
                break;
            }
        }
        st.eval();
        st.tag(if panicked { "exhaustive-panic" } else { "exhaustive-ok" });
        st.nontrivial(&("c03x", len, code));
    }
}

pub fn generate(o: &Opts, w: &mut dyn Write) {
    let pname = o.extra.iter().position(|x| x == "--profile").map(|i| o.extra[i + 1].clone()).unwrap_or("c01".into());
    let p = profile(&pname);
    let mut st = Stats::new(
        "random histories of simulated clients against the real Router (connect/subscribe/unsubscribe/publish QoS0-2/acks/disconnect, link pushes, drains, Ready, consume), per-profile adversarial and stale events; one case = one history; non-trivial = history in which at least one publish was forwarded to a subscriber; distinct by the hash of the whole op list",
    );
    let n = if o.thorough() { 6000 / o.shards.max(1) } else { 800 / o.shards.max(1) };
    for c in 0..n {
        let seed = o.seed.wrapping_mul(1_000_003) ^ (o.shard << 40) ^ c ^ (hash_name(p.name) << 20);
        let mut buf: Vec<u8> = Vec::new();
        let before = *st.histogram.get("fwd-received").unwrap_or(&0);
        one_case(o, &mut buf, &mut st, &p, c + o.shard * 1_000_000, seed);
        let after = *st.histogram.get("fwd-received").unwrap_or(&0);
        if after > before {
            st.nontrivial(&buf);
            if st.samples.len() < 3 {
                let text = String::from_utf8_lossy(&buf);
                st.sample(text.lines().take(14).collect::<Vec<_>>().join(" // "));
            }
        }
        w.write_all(&buf).unwrap();
    }
    if p.name == "c03" {
        exhaustive_c03(o, w, &mut st, if o.thorough() { 4 } else { 3 });
    }
    if let Some(path) = &o.stats {
        st.write(path);
    }
}

fn hash_name(s: &str) -> u64 {
    s.bytes().fold(7u64, |a, b| a.wrapping_mul(31).wrapping_add(b as u64))
}
